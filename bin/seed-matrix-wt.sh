#!/bin/bash
# seed-matrix-wt.sh <seed-dir>... : like seed-matrix.sh, but the change is applied to a scratch worktree of /repo HEAD (outside /repo and
# /verif, removed afterwards) and the check is pointed at it through UTAP_SRC, so that /repo itself stays untouched and other checks
# can run at the same time. Development tool.
V=$(cd "$(dirname "$0")/.." && pwd); cd "$V"
W=/tmp/wt-seedrun-$$
for d in "$@"; do
  n=$(basename "$d"); id=${n%%-*}
  git -C /repo worktree remove --force "$W" >/dev/null 2>&1; rm -rf "$W"
  git -C /repo worktree add --detach "$W" HEAD >/dev/null 2>&1 || { echo "$n worktree-failed"; continue; }
  if ! (cd "$W" && git apply "$V/$d/patch.diff") 2>/dev/null; then echo "$n check=$id exit=? patch does not apply"; git -C /repo worktree remove --force "$W"; continue; fi
  out=$(UTAP_SRC="$W" UTAP_BUILD_ROOT="${MUT_BUILD_ROOT:-$V/.build-mut}" VERIF_WORK="$V/.work/mut-work" VERIF_EVIDENCE_DIR="$V/.work/mut-evidence" VERIF_SEED=${VERIF_SEED:-0} ./check "$id" --tier ${TIER:-quick} 2>&1); rc=$?
  what=$(echo "$out" | grep -m1 "^  what:" | cut -c1-220)
  echo "$n check=$id exit=$rc $what"
  git -C /repo worktree remove --force "$W" >/dev/null 2>&1; rm -rf "$W"
done
