#!/usr/bin/env python3
"""Regenerates the mechanical parts of DESIGN.md section 9 between <!-- BEGIN x --> / <!-- END x --> markers:
fixes (from known_findings.json 'fixed'), findings (known_findings.json 'findings'), matrix (seeded/*/meta.json)."""
import glob, json, os, re
V = os.path.dirname(os.path.dirname(os.path.abspath(__file__)))
kf = json.load(open(os.path.join(V, 'known_findings.json')))


def fixes():
    by = {}
    for line in kf['fixed']:
        m = re.match(r'fixed: property=(C\d\d) (.*)', line)
        by.setdefault(m.group(1), []).append(m.group(2))
    out = []
    for p in sorted(by):
        out.append('* **%s**' % p)
        out += ['  * ' + t for t in by[p]]
    return '\n'.join(out)


def findings():
    return '\n'.join('* **%s** (%s): %s' % (f['id'], f['property'], f['what']) for f in kf['findings'])


def matrix():
    rows = ['| seed | change (first line of its notes) | result | first report of the check |', '|---|---|---|---|']
    for d in sorted(glob.glob(os.path.join(V, 'seeded', 'C*-*'))):
        m = json.load(open(os.path.join(d, 'meta.json')))
        r = m['check_result']
        res = 'caught' if str(r.get('exit')) == '1' else 'MISSED (exit %s)' % r.get('exit')
        cell = lambda s: s.replace('|', '\\|').replace('\n', ' ')
        rows.append('| %s | %s | %s | %s |' % (m['seed'], cell(m['change'])[:150], res, cell(r.get('first_report', ''))[:150]))
    return '\n'.join(rows)


text = open(os.path.join(V, 'DESIGN.md')).read()
for name, fn in (('fixes', fixes), ('findings', findings), ('matrix', matrix)):
    b, e = '<!-- BEGIN %s -->' % name, '<!-- END %s -->' % name
    i, j = text.index(b) + len(b), text.index(e)
    text = text[:i] + '\n' + fn() + '\n' + text[j:]
open(os.path.join(V, 'DESIGN.md'), 'w').write(text)
