#!/usr/bin/env python3
"""Writes seeded/<id>/meta.json from notes.md (what the change is, what it needs to manifest), confirm.log (independent
confirmation: patch applies, tests pass, demo fails with / passes without) and the seed-matrix logs (which check caught it)."""
import glob, json, os, re
V = os.path.dirname(os.path.dirname(os.path.abspath(__file__)))
matrix = {}
for log in sorted(glob.glob(os.path.join(V, 'seeded', 'MATRIX*.txt'))):
    for line in open(log):
        m = re.match(r'(C\d\d-\d) check=(C\d\d) exit=(\S+)\s*(?:what: (.*))?', line.strip())
        if m:
            matrix[m.group(1)] = {'check': m.group(2), 'exit': m.group(3), 'first_report': (m.group(4) or '')[:220]}
props = {json.loads(l)['id']: json.loads(l) for l in open(os.path.join(V, 'properties.jsonl'))}
for d in sorted(glob.glob(os.path.join(V, 'seeded', 'C*-*'))):
    n = os.path.basename(d)
    pid = n.split('-')[0]
    notes = open(os.path.join(d, 'notes.md')).read() if os.path.exists(os.path.join(d, 'notes.md')) else ''
    title = (re.search(r'^#\s*(.+)$', notes, re.M) or [None, ''])[1].strip()
    sec = re.search(r'^#+\s*(?:What (?:is|it) need[^\n]*|What it takes[^\n]*|Needed to manifest[^\n]*|What triggers[^\n]*|When it shows[^\n]*)\n(.*?)(?=^#|\Z)', notes, re.M | re.S | re.I)
    needs = re.sub(r'\s+', ' ', sec.group(1)).strip()[:900] if sec else ''
    if not needs:
        m2 = re.search(r'(?:needs?|need(?:ed)?|manifest)[^\n]*\n(.*?)(?:\n\n|\Z)', notes, re.S | re.I)
        needs = re.sub(r'\s+', ' ', m2.group(0)).strip()[:900] if m2 else 'see notes.md'
    conf = ''
    cl = os.path.join(d, 'confirm.log')
    if os.path.exists(cl):
        lines = [l.strip() for l in open(cl) if l.startswith(n)]
        conf = lines[-1] if lines else ''
    files = sorted(os.listdir(d))
    meta = {
        'seed': n,
        'property': pid,
        'property_title': props[pid]['title'],
        'change': title,
        'patch': 'patch.diff',
        'demonstration': [f for f in files if f.startswith('demo')],
        'needs_to_manifest': needs,
        'independent_confirmation': conf or 'not confirmed (see notes.md)',
        'confirmation_procedure': 'bin/confirm-seed.sh: scratch worktree of /repo HEAD outside /repo and /verif; git apply patch.diff; cmake build; ctest (all pass); demo exits non-zero; patch reverted, rebuilt; demo exits 0; worktree removed',
        'check_result': matrix.get(n, {'check': pid, 'exit': 'not run'}),
        'origin': 'written by a fresh sub-agent that was given only the text of the property and its own scratch worktree',
    }
    extra = os.path.join(d, 'meta-extra.json')
    if os.path.exists(extra):
        meta.update(json.load(open(extra)))
    json.dump(meta, open(os.path.join(d, 'meta.json'), 'w'), indent=1)
    print(n, meta['check_result'].get('exit'), '|', conf[-60:])
