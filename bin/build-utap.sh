#!/bin/bash
# build-utap.sh <variant>   variant in {asan, fuzz}
# Builds libutap.a from the *current working tree* of the repository
# (UTAP_SRC, default /repo) into /verif/.build/<variant>/, keyed by a content
# hash of src/ include/ and the flag set.  Prints the build directory.
# exit 0 ok, exit 2 infrastructure failure (compile error etc.)
set -u
VARIANT=${1:-asan}
SRC=${UTAP_SRC:-/repo}
VERIF=$(cd "$(dirname "$0")/.." && pwd)
OUT=${UTAP_BUILD_ROOT:-$VERIF/.build}/$VARIANT
CXX=clang++
COMMON="-std=c++17 -fPIC -g -O1 -fno-omit-frame-pointer -DNDEBUG -D_GLIBCXX_ASSERTIONS -DUTAP_VERIF -Wno-everything"
case "$VARIANT" in
  asan) SAN="-fsanitize=address,undefined -fno-sanitize-recover=undefined" ;;
  fuzz) SAN="-fsanitize=address,undefined -fno-sanitize-recover=undefined -fsanitize=fuzzer-no-link" ;;
  plain) SAN="" ;;
  *) echo "unknown variant $VARIANT" >&2; exit 2 ;;
esac
mkdir -p "$OUT"
exec 9>"$OUT/.lock"
flock 9
HASH=$( (cd "$SRC" && find src include -type f \( -name '*.cpp' -o -name '*.h' -o -name '*.hpp' -o -name '*.y' -o -name '*.l' -o -name '*.c' \) | LC_ALL=C sort | xargs sha1sum; echo "$COMMON $SAN $SRC") | sha1sum | cut -d' ' -f1)
if [ -f "$OUT/libutap.a" ] && [ "$(cat "$OUT/.hash" 2>/dev/null)" = "$HASH" ]; then
  echo "$OUT"; exit 0
fi
rm -rf "$OUT/obj" "$OUT/gen" "$OUT/libutap.a" "$OUT/.hash"
mkdir -p "$OUT/obj" "$OUT/gen/include"
LOG="$OUT/build.log"; : > "$LOG"
( flex --outfile="$OUT/gen/lexer.cc" -Putap_ "$SRC/src/lexer.l" &&
  bison -putap_ -bparser "$SRC/src/parser.y" --output="$OUT/gen/parser.cpp" --defines="$OUT/gen/include/parser.hpp" ) >>"$LOG" 2>&1 || { echo "flex/bison failed, see $LOG" >&2; tail -20 "$LOG" >&2; exit 2; }
INC="-I$SRC/include -I$SRC/src -I$OUT/gen/include -I$OUT/gen -I/usr/include/libxml2"
compile() { f=$1; o="$OUT/obj/$(basename "${f%.*}").o"; $CXX $COMMON $SAN $INC -c "$f" -o "$o" >>"$LOG.$(basename "$f")" 2>&1; }
export -f compile; export CXX COMMON SAN INC OUT LOG
# parser.cpp first: it is the long pole
( echo "$OUT/gen/parser.cpp"; ls "$SRC"/src/*.cpp ) | xargs -P 16 -I{} bash -c 'compile {}' 
FAIL=0
for f in "$OUT/gen/parser.cpp" "$SRC"/src/*.cpp; do
  o="$OUT/obj/$(basename "${f%.*}").o"
  if [ ! -f "$o" ]; then FAIL=1; echo "compile failed: $f" >&2; tail -20 "$LOG.$(basename "$f")" >&2; fi
done
[ $FAIL = 0 ] || exit 2
rm -f "$OUT/libutap.a"
ar rcs "$OUT/libutap.a" "$OUT"/obj/*.o || exit 2
echo "$HASH" > "$OUT/.hash"
echo "$OUT"
