#!/usr/bin/env python3
"""(Re)creates the committed seed corpora under corpus/fz_* from the repository's test models and hand-written samples."""
import glob, os, hashlib
V = os.path.dirname(os.path.dirname(os.path.abspath(__file__)))
def put(target, data):
    d = os.path.join(V, 'corpus', target); os.makedirs(d, exist_ok=True)
    open(os.path.join(d, hashlib.sha1(data).hexdigest()[:16]), 'wb').write(data)
for f in sorted(glob.glob('/repo/test/models/*.xml')) + sorted(glob.glob(os.path.join(V, 'corpus/seeds/*.xml'))):
    data = open(f, 'rb').read()
    if len(data) > 12000:
        continue
    put('fz_xml', b'\x01' + data)
    if 'simpleSystem' in f or 'rich_ta' in f:
        put('fz_xml', b'\x05' + data); put('fz_xml', b'\x03' + data)
    if 'old_syntax' in f:
        put('fz_xml', b'\x00' + data)
XTA = [b"""const int N = 2;
typedef int[0,N-1] id_t;
clock x; int v[N]; broadcast chan go; chan c[N]; bool b;
int inc(int k) { if (k < N) return k + 1; else return 0; }
process P(const id_t id, int &w) {
clock z; int cnt = 0;
state Idle { z <= 10 ; 2 }, Busy, Done;
branchpoint Br;
commit Done;
urgent Busy;
init Idle;
trans Idle -> Busy { select i : id_t; guard z >= 2 && v[i] == 0; sync c[id]!; assign cnt = inc(cnt), w = i; },
  Busy -> Br { guard b; sync go?; },
  Br -> Done { assign cnt++; probability 3; },
  Br -> Idle { probability 1; },
  Done -u-> Done { };
}
process Q() { state S; init S; trans S -> S { sync go!; }; }
P1 = P(0, v[0]);
system P1 < Q;
""", b"""clock x; chan a;
process T(int p) { clock t; state A { t <= p }, B; init A; trans A -> B { guard t > 1; sync a!; assign t = 0; }, B -> A { sync a?; }; }
X = T(2); Y = T(3);
system X, Y;
""", b"""const N 3;
int[0,N] n := 0; clock x; chan a; urgent chan u;
process T(int[0,N] p; const k) { int loc := 1; state A { x <= 5 }, B; urgent B; init A;
trans A -> B { guard x >= 1, n < N; sync a!; assign n := n + 1, x := 0; }, B -> A { sync a?; }; }
X := T(n, 1);
system X;
""", b"""int g; chan priority a < default; chan a;
void f(int &r) { for (i : int[0,3]) { r += i; } while (r > 10) r--; do { r++; } while (r < 3); }
struct { int a; double d; } s = { 1, 2.5 };
int arr[2][3] = { {1,2,3}, {4,5,6} };
process P() { state L; init L; trans L -> L { assign f(g), g = (g > 0) ? 1 : s.a; }; }
system P;
gantt { G(i : int[0,1]) : g == i -> 2; }
progress { g; }
"""]
for i, x in enumerate(XTA):
    put('fz_xta', (b'\x00' if i == 2 else b'\x01') + x)
    put('fz_xta', (b'\x04' if i == 2 else b'\x05') + x)
    put('fz_xta', (b'\x06' if i == 2 else b'\x07') + x)
Q = ["A[] not deadlock", "E<> Q.L1 and x > 3", "A<> i == 2 imply Q.L0", "E[] forall (k : int[0,2]) v[k] >= 0", "Q.L0 --> R.L1",
     "sup: x, i", "inf{Q.L1}: x", "bounds: i", "Pr[<=10](<> Q.L1)", "Pr[#<=20]([] i < 5) >= 0.5", "Pr[x<=10;100](<> Q.L1) >= Pr[<=5](<> R.L1)",
     "E[<=10;50](max: i)", "simulate [<=10] {x, i}", "simulate [<=10;5] {i} : 2 : Q.L1", "control: A<> Q.Goal", "control: A[ not Q.L1 U Q.Goal ]",
     "control_t*(2,x): A<> Q.Goal", "E<> control: A[] not Q.L1", "{ i } control: A<> Q.Goal", "strategy S = control: A<> Q.Goal",
     "A[] not Q.L1 under S", "strategy M = minE (x) [<=10] {i} -> {x} : <> Q.Goal", "strategy M = maxE (i) [<=10] : <> Q.L1",
     "saveStrategy(\"/tmp/s.json\", S)", "strategy L = loadStrategy {i} -> {x} (\"/tmp/s.json\")", "Pr (<>[0,5] Q.L1)", "Pr ([] [1,2] i < 3 U[0,3] Q.L1)",
     "A[] Q.y <= 5 && f(i) > 0", "E<> exists (k : int[0,2]) v[k] == k", "minPr[<=10] (<> Q.L1)", "E<> d > 0.5 && h < 1.5e3"]
for i, q in enumerate(Q):
    put('fz_query', bytes([i % 3]) + q.encode())
    if i % 5 == 0:
        put('fz_query', bytes([4 + i % 3]) + (q + "\n" + Q[(i + 7) % len(Q)] + "\n").encode())
PARTS = {1: ["int a = 1; clock c; typedef struct { int x; } S; S s; void f() { a++; }"], 2: ["clock y; int k = N;"],
         3: ["Q2 = P(1); R2(int z) = P(z);"], 4: ["Q = P(1); system Q;", "system Q < R;"], 5: ["int a, const bool &b, clock &c"],
         6: ["y <= 5 && y' == 1"], 7: ["2.5"], 8: ["i : int[0,3], j : int[0,1]"], 9: ["y >= 1 && i < N"], 10: ["a!", "a?"],
         11: ["i = 1, y = 0, v[0]++"], 12: ["i + f(2) * (b ? 1 : 2)"], 13: ["i, b, x > 2"], 14: ["A[] not deadlock"],
         15: ["process Z() { state A; init A; }"], 16: ["3"], 17: ["P(1)"], 18: ["a"], 19: ["i = 1"], 20: ["i > 0"], 0: [XTA[1].decode()]}
for p, texts in PARTS.items():
    for t in texts:
        for b in (1, 3, 5, 7, 0):
            put('fz_part', bytes([p, b]) + t.encode())
