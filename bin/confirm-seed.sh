#!/bin/bash
# confirm-seed.sh <seed-dir>  e.g. seeded/C02-1
# Independent confirmation of a seeded change in a scratch worktree of /repo HEAD (outside /repo and /verif):
#  (1) patch applies, library + tests build, ctest passes, demo FAILS;  (2) without the patch the demo PASSES.
# Writes <seed-dir>/confirm.log and prints one summary line.
set -u
D=$(cd "$1" && pwd)
N=$(basename "$D")
W=/tmp/confirm-$N
LOG=$D/confirm.log
: > "$LOG"
git -C /repo worktree remove --force "$W" >/dev/null 2>&1
rm -rf "$W"
git -C /repo worktree add --detach "$W" ${CONFIRM_BASE:-HEAD} >>"$LOG" 2>&1 || { echo "$N worktree-failed"; exit 2; }
cleanup() { git -C /repo worktree remove --force "$W" >/dev/null 2>&1; rm -rf "$W"; }
trap cleanup EXIT
DEMO=$(ls "$D"/demo*.sh | head -1)
res=""
( cd "$W" && git apply "$D/patch.diff" ) >>"$LOG" 2>&1 || { echo "$N patch-does-not-apply"; exit 1; }
cmake -G Ninja -S "$W" -B "$W/_build" -DCMAKE_BUILD_TYPE=RelWithDebInfo >>"$LOG" 2>&1 && cmake --build "$W/_build" -j8 >>"$LOG" 2>&1 || { echo "$N build-failed-with-patch"; exit 1; }
if ctest --test-dir "$W/_build" -j8 >>"$LOG" 2>&1; then res="tests-pass"; else echo "$N tests-fail-with-patch"; exit 1; fi
sh "$DEMO" "$W" "$W/_build" >>"$LOG" 2>&1; rc1=$?
( cd "$W" && git checkout -- . ) >>"$LOG" 2>&1
cmake --build "$W/_build" -j8 >>"$LOG" 2>&1 || { echo "$N build-failed-without-patch"; exit 1; }
sh "$DEMO" "$W" "$W/_build" >>"$LOG" 2>&1; rc0=$?
echo "$N $res demo_with_patch=$rc1 demo_without_patch=$rc0 base=$(git -C /repo rev-parse --short ${CONFIRM_BASE:-HEAD})" | tee -a "$LOG"
[ $rc1 -ne 0 ] && [ $rc0 -eq 0 ]
