#!/bin/bash
# build-harness.sh <target>...  targets: oracle c18 fuzz
# Rebuilds libutap (from the repository's current working tree) if needed and links the harness binaries.
set -u
VERIF=$(cd "$(dirname "$0")/.." && pwd)
SRC=${UTAP_SRC:-/repo}
ROOT=${UTAP_BUILD_ROOT:-$VERIF/.build}
H=$VERIF/harness/cpp
CXXF="-std=c++17 -g -O1 -fno-omit-frame-pointer -DNDEBUG -D_GLIBCXX_ASSERTIONS -DUTAP_VERIF -Wno-everything"
SAN="-fsanitize=address,undefined -fno-sanitize-recover=undefined"
rc=0
newer() { # newer <target> <deps...> : true if target missing or older than any dep
  t=$1; shift
  [ -f "$t" ] || return 0
  for d in "$@"; do [ "$d" -nt "$t" ] && return 0; done
  return 1
}
for T in "$@"; do
case "$T" in
  oracle)
    B=$("$VERIF/bin/build-utap.sh" asan) || exit 2
    mkdir -p "$B/gen"
    python3 "$VERIF/bin/gen-kinds.py" "$SRC/include/utap/common.h" > "$B/gen/kind_names.inc.new" || exit 2
    cmp -s "$B/gen/kind_names.inc.new" "$B/gen/kind_names.inc" || mv "$B/gen/kind_names.inc.new" "$B/gen/kind_names.inc"
    if newer "$B/oracle" "$B/libutap.a" "$H"/oracle.cpp "$H"/dump.h "$H"/actions.h "$H"/laws.h "$B/gen/kind_names.inc"; then
      ( flock 9
        clang++ $CXXF $SAN -I"$SRC/include" -I"$SRC/src" -I"$B/gen" -I"$B/gen/include" -I/usr/include/libxml2 \
          "$H/oracle.cpp" "$B/libutap.a" -o "$B/oracle.tmp" -lxml2 -ldl > "$B/oracle.log" 2>&1 && mv "$B/oracle.tmp" "$B/oracle"
      ) 9>"$B/.hlock" || { echo "oracle build failed:" >&2; tail -30 "$B/oracle.log" >&2; exit 2; }
    fi
    ;;
  c18)
    mkdir -p "$ROOT/c18"
    HASH=$(cat "$SRC/include/utap/range.h" "$H/c18.cpp" | sha1sum | cut -d' ' -f1)
    if [ ! -x "$ROOT/c18/c18" ] || [ "$(cat "$ROOT/c18/.hash" 2>/dev/null)" != "$HASH" ]; then
      ( flock 9
        clang++ -std=c++17 -O2 -g -DNDEBUG -fsanitize=undefined -fno-sanitize-recover=undefined -I"$SRC/include" \
          "$H/c18.cpp" -o "$ROOT/c18/c18.tmp" -lrapidcheck -lpthread > "$ROOT/c18/build.log" 2>&1 && mv "$ROOT/c18/c18.tmp" "$ROOT/c18/c18" && echo "$HASH" > "$ROOT/c18/.hash"
      ) 9>"$ROOT/c18/.lock" || { echo "c18 build failed:" >&2; tail -30 "$ROOT/c18/build.log" >&2; exit 2; }
    fi
    ;;
  fuzz)
    B=$("$VERIF/bin/build-utap.sh" fuzz) || exit 2
    mkdir -p "$B/gen"
    python3 "$VERIF/bin/gen-kinds.py" "$SRC/include/utap/common.h" > "$B/gen/kind_names.inc.new" || exit 2
    cmp -s "$B/gen/kind_names.inc.new" "$B/gen/kind_names.inc" || mv "$B/gen/kind_names.inc.new" "$B/gen/kind_names.inc"
    for F in "$H"/fz_*.cpp; do
      [ -f "$F" ] || continue
      N=$(basename "${F%.cpp}")
      if newer "$B/$N" "$B/libutap.a" "$F" "$H"/dump.h "$H"/actions.h "$H"/laws.h "$H"/fuzz_common.h "$B/gen/kind_names.inc"; then
        ( flock 9
          clang++ $CXXF $SAN -fsanitize=fuzzer -I"$SRC/include" -I"$SRC/src" -I"$B/gen" -I"$B/gen/include" -I/usr/include/libxml2 \
            "$F" "$B/libutap.a" -o "$B/$N.tmp" -lxml2 -ldl > "$B/$N.log" 2>&1 && mv "$B/$N.tmp" "$B/$N"
        ) 9>"$B/.hlock" || { echo "$N build failed:" >&2; tail -30 "$B/$N.log" >&2; exit 2; }
      fi
    done
    ;;
  *) echo "unknown target $T" >&2; exit 2 ;;
esac
done
exit 0
