#!/usr/bin/env python3
"""Regenerates MANIFEST.json from the table below (kept in one place so that it stays valid)."""
import json
import os

V = os.path.dirname(os.path.dirname(os.path.abspath(__file__)))

CHECKS = {
    'C01': dict(
        engine='oracle-server enumeration / history / scaling layers + libFuzzer fork-mode targets (harness/cpp/fz_*.cpp, harness/py/prop_C01.py, c01_fuzz.py, c01_scaling.py)',
        technique='single-fault XML mutation enumeration + damaged-input histories + CPU-time scaling probe over input families + coverage-guided fuzzing (libFuzzer, ASan+UBSan) with a crash/clean-rejection oracle and three-fold confirmation of time-outs',
        category='exploration',
        text=('Every parsing entry point is driven with (1) every single structural edit of four seed documents under both '
              'syntax switches and the document/pretty back ends, (1b) a rich XTA text damaged at every second (thorough: every) '
              'token position followed by a valid probe in the same process, (2) libFuzzer fork-mode campaigns over XML, XTA, '
              'query and per-block inputs with a keyword/tag dictionary, (3) a CPU-time scaling probe over 40 input families at '
              'sizes n..8n up to 64 KiB; the oracle is: the call returns or throws std::exception, sanitizers stay silent, no '
              'child dies, CPU time grows at most like size^2.5 and stays below 20 s. Exploration: layer 1 is exhaustive for '
              'its edit space, the rest is sampled.'),
        design_ref='DESIGN.md 4/C01 and 9.2',
        note=('Deciding build: clang 14 -O1 -DNDEBUG -D_GLIBCXX_ASSERTIONS + ASan/UBSan (the library\'s own asserts off as in the RelWithDebInfo baseline; libstdc++ assertions on, so that an out-of-range vector index or a null smart pointer inside the standard library aborts), run with a 2 GiB '
              'stack limit because the instrumented build needs about 60 times the stack of the shipped build per recursion level. '
              'Leaks are not checked. libxml2 itself is uninstrumented. Time-outs count only after three confirmations on CPU time. '
              'A quick fuzz campaign (60-80 k executions per target) is a sampler: two of the crash defects repaired in /repo '
              'showed only in a 1.5 M-execution campaign.'),
    ),
    'C02': dict(
        engine='oracle-server + Hypothesis + depth-2 enumeration (harness/py/prop_C02.py, gen_expr.py)',
        technique='property-based testing against a reference operator table: render(min parens / full parens) -> parse -> compare canonical trees; exhaustive depth-2 operator-pair enumeration; literal round-trip against correctly rounded conversion',
        category='exploration',
        text=('Abstract expression trees are rendered with minimal and with full parentheses, parsed by the library, and the '
              'parsed tree (kinds, operand order, symbol binding, literal values bit for bit) is compared with the abstract tree. '
              'All (parent form, slot, child form) triples are enumerated in every tier, deeper trees are drawn by Hypothesis, '
              'literal boundary texts are checked against exact integer / correctly rounded double values; sums over the instances of a dynamic template must take the same body with and without parentheses around it.'),
        design_ref='DESIGN.md 4/C02',
        note=('Trusted: the reference operator table (gen_expr.py), Python float() as correctly rounded conversion, the oracle '
              'server dump (public accessors only). Contexts: S_EXPRESSION and the assignment label of an XML model whose character data is spelled in six ways - entities, CDATA, text + CDATA, XML comment inside, numeric references (quick) plus query, update-list and initialiser contexts (thorough).'),
    ),
    'C03': dict(
        engine='oracle-server roundtrip action + Hypothesis + depth-2 enumeration + libFuzzer targets with the round trip inside (harness/py/prop_C03.py, gen_query.py, harness/cpp/fuzz_common.h)',
        technique='round-trip property-based testing: parse -> str() -> parse -> str(), canonical trees compared (alpha-normalised binders, bit-exact doubles); operator-pair enumeration; typed query generators for every query form; failures localised to a minimal subtree before matching known findings; coverage-guided fuzz feeder with the round-trip oracle inside the target',
        category='exploration',
        text=('For untyped expression trees (all depth-2 operator pairs + random trees) and typed queries of every query form '
              'on three model flavours, the library\'s own string conversion (applied to the tree of the minimally and of the fully parenthesised text) must not throw, its output must be accepted in the '
              'same scope without diagnostics, give a structurally equal tree and print identically again. Inputs that do not '
              'parse cleanly are outside the domain and counted as filtered. A fuzz layer (fz_xml, fz_query with the oracle '
              'inside) feeds whatever expressions the fuzzer gets accepted; its artifacts are confirmed through the oracle server.'),
        design_ref='DESIGN.md 4/C03',
        note=('Tree equality is decided on the oracle server\'s canonical dump, not on expression_t::equal (which compares binder '
              'symbols by identity). One recorded finding (control: A[p U q] hands out a tree that is not a query by itself) is '
              'excluded by exact descriptor and counted.'),
    ),
    'C04': dict(
        engine='oracle-server + Hypothesis model generator (harness/py/gen_model.py, prop_C04.py)',
        technique='model-based property testing: abstract model -> XML rendering with layout noise -> parse -> projection of the document compared with the generator\'s own expected projection (builder-only exact; Document* overload with the documented invariant rewrite normalised)',
        category='exploration',
        text=('Generated abstract models (templates, parameters, declarations, locations, branchpoints, init, edges with all label '
              'kinds in any order within a transition, names with white space around them, instantiations incl. partial and chained, system line with priorities; a quarter with unusual but valid identifiers: leading underscores, $ and #, soft keywords, names the sources compare with) are rendered to XML (layout noise incl. labels that do not go to the grammar and character data in pieces around XML comments / CDATA sections) and parsed; every '
              'element the statement lists must appear in the document in source order, attached to the right owner, with the '
              'right expression trees, endpoints, flags and parameter-to-argument mapping.'),
        design_ref='DESIGN.md 4/C04',
        note=('The generator is the reference (names unique across scopes). Types are compared through a summary (prefixes, base '
              'kind, bounds, array sizes, record fields), expressions through canonical trees. LSC templates are not generated.'),
    ),
    'C05': dict(
        engine='oracle-server + Hypothesis model generator (harness/py/prop_C05.py)',
        technique='differential testing of the two front ends: the same abstract model rendered as XML and as XTA, parsed through the Document* overloads, documents/diagnostic multisets/verdicts compared; one injected fault per model in a third of the cases (unknown identifiers, type errors, side effects, bad argument counts, a location named like a template variable)',
        category='exploration',
        text=('The XML reader path and the XTA grammar path (ProcDecl/States/Transitions incl. the chained -> form, commit/urgent '
              'lists, -u->) must produce the same declarations, templates, locations, flags, edges, labels, processes, the same '
              'multiset of error and warning messages and the same supported-methods verdict for every generated model of the '
              'common subset, clean or carrying one fault.'),
        design_ref='DESIGN.md 4/C05',
        note='Positions, paths and edge action names are not compared. Only 4.x syntax is generated.',
    ),
    'C19': dict(
        engine='oracle-server laws action (harness/cpp/laws.h) + Hypothesis model / query / tree generators (harness/py/prop_C19.py)',
        technique='property-based testing of algebraic laws through the public expression_t API inside a sanitized process: clone/subst/equal laws and single-node perturbations on every expression of generated models, every query form and random operator trees',
        category='exploration',
        text=('For every expression of generated documents (labels, initialisers with LIST nodes, function bodies with FUN_CALL, '
              'instantiation arguments), of every query form on three model flavours and of random untyped operator trees the '
              'laws of the statement are evaluated: deep clones are equal, share no node and are independent under set_type and '
              'child replacement; subst replaces exactly the IDENTIFIER nodes of the symbol (compared with a textual replacement '
              'on the canonical dump), is pure and is the identity for s:=s and for absent symbols; equal is reflexive, '
              'symmetric, transitive, implies equal text (also after the text was asked for and a descendant replaced) and distinguishes every single-node perturbation; every child index '
              'below get_size() is accessed under ASan. 143 node kinds occur in a quick run. type_t::subst is held to the same '
              'laws (exact / pure / identity) on every (template parameter, frame variable) pair: range bounds, array sizes and '
              'record fields that mention the parameter under any operator. equal() is also evaluated between the expressions of several documents alive in one process (string constants live in per-document tables): symmetric, and equal implies equal text.'),
        design_ref='DESIGN.md 4/C19',
        note=('An under-reported child count is not observable through the public API (over-reporting is, under ASan). '
              'Types attached to expression nodes are not part of the expression substitution comparison; declared types are substituted through type_t::subst and compared separately.'),
    ),
    'C20': dict(
        engine='oracle-server write action + Hypothesis model generator + xml.dom.minidom (harness/py/prop_C20.py)',
        technique='round-trip property testing through an independent reader: generated accepted models -> write_XML_file -> Python minidom -> compared with the document (ids, names, labels, init, endpoints, controllable, selects)',
        category='exploration',
        text=('Accepted generated models are parsed, written with write_XML_file and the written file is read by an XML parser '
              'that shares no code with utap or libxml2; every location, init reference, transition, endpoint, controllable '
              'flag and non-trivial label of the document must be found in the file, in order, with the text of the library\'s '
              'own string conversion. Writing must not crash or throw, also for edges through branchpoints and partial instances.'),
        design_ref='DESIGN.md 4/C20',
        note='Label text is trusted to str() (decided by C03). Declarations, flags and the system section of the file are not compared.',
    ),
    'C06': dict(
        engine='oracle-server + Hypothesis models x deterministic (block, token, fault) enumeration (harness/py/prop_C06.py, faults.py, tokenizer.py)',
        technique='fault injection over generated models: one token-level fault per text block and token position, diagnostics checked against an independent ElementTree DOM of the same bytes (path uniqueness, line/column bounds, attribution, exact identifier range)',
        category='fault_enumeration',
        text=('For each generated accepted model with layout noise, every text block x spread token positions x applicable fault '
              'kind is enumerated; each reported error/warning must carry a path selecting exactly one element, a line inside '
              'that block, columns inside that line with start<=end, be attributed to the faulted block (all of them for '
              'non-declaring labels) and, for an undeclared identifier, cover exactly the identifier. Declaration blocks also get semantic faults on the size of an array declared by size (not constant, a clock, ill typed).'),
        design_ref='DESIGN.md 4/C06',
        note=('In declaring blocks only syntax-breaking faults are injected (other edits can be valid declarations that break their '
              'users). A mutation that yields no error anywhere is not a fault and is skipped (counted). The XTA part checks line and '
              'column against the text (no paths there); its undeclared-identifier fault is restricted to label sections.'),
    ),
    'C07': dict(
        engine='oracle-server (document dump + symbol table + member-access types) + Hypothesis collision-model generator with a scope-stack reference (harness/py/prop_C07.py)',
        technique='model-based property testing against a lexical-scoping reference: one name declared at a drawn subset of 16 scope levels with distinguishable types, use sites located by unique literals, binding identified by the type bound of the symbol found in the parsed tree',
        category='exploration',
        text=('The name n is declared at drawn scope levels (global at a drawn position, template parameter / local, function '
              'parameter / local in global and template-local functions, nested blocks, iteration binders incl. nested and '
              'brace-less, quantifier binders incl. nested, select binders, instantiation parameter) with pairwise different '
              'bounds. A second family does the same for a type name (typedef at global, template, function and block level, also over a built-in type name; probe variables of that type before and after each typedef). About 35 use sites per model lie before and after each declaration, inside and after each scope, in all '
              'label kinds, in another template, in instantiation arguments and in queries (unqualified, P1.n, and P1.m .. P1.ms '
              'whose declared types mention the template parameter in range bounds, array sizes and struct fields, with argument '
              'substitution through chains of up to three partial instantiations). Each site must be bound to the declaration the '
              'scope-stack reference predicts, or be reported unknown when none precedes; no template parameter may survive in '
              'the type of a qualified member.'),
        design_ref='DESIGN.md 4/C07',
        note=('The reference is the emitter\'s own scope stack (textual order). Dynamic templates and LSC are not generated. '
              'Query sites are judged only when the document itself is error free (queries are typed against a clean document).'),
    ),
    'C08': dict(
        engine='oracle-server invariant predicate (harness/cpp/dump.h Dumper::invariants) + xmlmut enumeration + Hypothesis model generator with recovery-provoking mutations + libFuzzer targets with the predicate switched on (harness/py/prop_C08.py)',
        technique='invariant checking over generated and fuzzed inputs: complete traversal of every produced Document (valid, with diagnostics, after an exception) by a predicate over public members; single-edit enumeration, model-level mutations that force error recovery, coverage-guided fuzzing with the predicate inside the target',
        category='exploration',
        text=('Every document that a parse leaves behind - after a normal return, after diagnostics, after an exception - is '
              'traversed completely: user-data back pointers of variables (all scopes), functions, locations, branchpoints, '
              'templates, instances and processes (a missing symbol is reported, not dereferenced); one source and one target per edge inside its own template; dense numbering; '
              'unbound-first parameter lists with matching type arity and exactly the bound parameters mapped; an own initial '
              'location when the call was clean. Inputs: all single structural edits of four seed documents, degenerate documents '
              '(empty templates and process bodies, nameless elements), generated models '
              'clean and after one of 30 mutations that force error recovery (duplicate and clashing names of every kind incl. branchpoints, dangling/foreign '
              'references, bad instantiations, token faults), XML and XTA, the same predicate again after member-access queries (P.v, T(0).v of process sets) and on models with progress measures, and libFuzzer campaigns with the predicate inside.'),
        design_ref='DESIGN.md 4/C08',
        note=('Trusted: the predicate itself (dump.h) and the public accessors it reads. Crashes while building are C01\'s '
              'subject and only counted. LSC templates are exempt from the initial-location clause.'),
    ),
    'C15': dict(
        engine='oracle-server multi-step requests (one process per history, fresh fork per reference) + pair/seed/poison enumeration + Hypothesis sequences (harness/py/prop_C15.py)',
        technique='history-based differential testing: each step of a generated call history executed in one process is compared with the same call made first in a fresh process (return value / exception class, diagnostics with path, line, column, canonical document, verdict); the global position counter is seeded to cross 2^31 and 2^32',
        category='exploration',
        text=('A pool of 57 parsing steps (all entry points, three builders, both syntaxes, valid / diagnostic / poisoning inputs: '
              'unterminated comments also through the PrettyPrinter builder, exceptions out of the grammar, XML structural errors, '
              'missing files, failing imports, calls against a document kept from an earlier step) is '
              'combined into histories: all ordered pairs, every (counter seed, offset, probe) triple, a rich XTA text damaged '
              'at every token position followed by a rich probe, and random histories of length 3..8. The record of every step '
              'inside a history must equal the record of that step executed alone in a fresh process.'),
        design_ref='DESIGN.md 4/C15',
        note=('The counter is seeded through the exported global instead of parsing gigabytes. Exception text, errno and absolute '
              'positions are not compared. One recorded finding: the 32-bit counter wraps at 2^32 (every difference at or after '
              'a 2^32 seed is attributed to it and counted); crossing 2^31-1 is checked without exclusion.'),
    ),
    'C16': dict(
        engine='oracle-server + Hypothesis models x deterministic (label, token, fault) and (declaration index, token, fault) enumeration (harness/py/prop_C16.py, faults.py, tokenizer.py)',
        technique='fault injection with a metamorphic oracle: faulty vs fault-free canonical document dumps compared with the faulted label masked, attribution of every new diagnostic, prefix preservation of declarations before a faulted declaration',
        category='fault_enumeration',
        text=('For each generated accepted model with layout noise every non-declaring label x spread token positions x fault '
              'kind is enumerated: the document built by DocumentBuilder alone (and, for semantic faults, the one after static '
              'analysis) must equal the fault-free document outside the faulted label, and every diagnostic the fault-free run '
              'does not have must point into the faulted block. For declaration blocks every declaration index x token x '
              '{truncation, token deletion, stray token, unbalanced bracket, unterminated comment} is enumerated and all '
              'declarations before the faulted one must be present and unchanged. Fifteen hand-built models whose quantifier binder and '
              'select binder names are also globals used by later labels expose scopes that a faulted label leaves open.'),
        design_ref='DESIGN.md 4/C16',
        note=('XML input. Three defects found by this check were repaired in /repo (cascading warning on an untyped guard; a failed '
              'rate label replacing the invariant; a syntax error in a quantifier body leaving scopes open); their minimal cases are replayed first.'),
    ),
    'C09': dict(
        engine='oracle-server + Hypothesis model generator with fault families + token-level rewriters + the repository models (harness/py/prop_C09.py)',
        technique='metamorphic testing: meaning-preserving rewrites (redundant parentheses on the abstract tree, layout/comments/continuations, consistent renaming incl. soft keywords, keyword-operator aliases) applied to accepted and rejected models; diagnostics multisets, verdict and canonical dump compared up to the renaming',
        category='exploration',
        text=('Generated models (accepted, with one abstract fault, with one token-level fault incl. unterminated comments) and the '
              '18 repository models are rewritten by R1 redundant parentheses, R2 white space / comments / continuations between '
              'tokens and white space / line breaks around names, R3 consistent renaming of every user identifier (and renaming of variables to the soft keywords A U W R E '
              'M sup inf bounds simulation), R4 keyword aliases to symbols. The multiset of (message, context) of errors and '
              'warnings with the renaming applied, the exception class, the supported-methods verdict and the canonical document '
              'dump with the renaming applied must be equal for the model and its rewriting.'),
        design_ref='DESIGN.md 4/C09',
        note=('Repository models: the dump is compared through name-free shape counts (their identifiers may coincide with dump '
              'vocabulary); the LSC model is not renamed. Location and template names are not renamed to soft keywords (the XML '
              'reader rejects keywords there by design). One-letter identifiers are left alone by R3.'),
    ),
    'C10': dict(
        engine='oracle-server + formula enumeration + Hypothesis (harness/py/prop_C10.py)',
        technique='property-based testing against a reference convexity classifier: boolean formula trees over clock/integer atoms placed as guard and as invariant; complete enumeration of depth <= 2, random trees of depth <= 4; must-reject / must-accept / unconstrained',
        category='exploration',
        text=('Formula trees over integer predicates, clock bounds and clock difference bounds with && || ! imply xor == != '
              'forall exists are placed as edge guard and as location invariant. A small reference classifier derived from the '
              'statement decides must-reject (a clock atom under !, in an imply antecedent, under exists, under == != xor, or '
              'under a || with clock atoms on both sides) and must-accept (plain conjunction of atoms accepted alone); the '
              'type checker must agree. The depth <= 2 space (26 337 formulas x 2 positions) is enumerated in every run, and every atom '
              '(five relational operators, clock or difference on either side) is placed under every connective on either side.'),
        design_ref='DESIGN.md 4/C10',
        note=('Formulas are batched 40 per model (one edge and one location each) and judged by the path of the reported errors; '
              'every apparent violation is re-run alone before it counts. Which atoms are acceptable alone per position is measured.'),
    ),
    'C11': dict(
        engine='oracle-server + cell enumeration (harness/py/prop_C11.py, cells.py)',
        technique='exhaustive cell enumeration with a twin (metamorphic) oracle: side-effect-free context x write form; the model with the write must be rejected, its twin with a read of the same shape / a write to callee locals must be accepted',
        category='exploration',
        text=('24 side-effect-free contexts (labels, initialisers at three levels, array size, range bound, instantiation '
              'argument, quantifier bodies, assert, seven query forms) x 59 write forms (every assignment operator, ++/--, '
              'element and field writes, writes nested in sub-expressions, writer functions with the write in every statement '
              'position, call chains to depth 4, writes through reference parameters) are enumerated completely; each cell is '
              'a model W and a twin R. W must be rejected, R accepted - the twin makes the rejection attributable to the write. In the query contexts writers declared in a template are also called through a process (P.wf()).'),
        design_ref='DESIGN.md 4/C11',
        note=('Exhaustive for the stated finite cell table only. Rejection is any error on the document or query; the evidence '
              'histogram shows how many rejections carry a side-effect message (compile-time contexts may reject a direct write '
              'for computability instead).'),
    ),
    'C12': dict(
        engine='oracle-server + cell enumeration (harness/py/prop_C12.py, cells.py)',
        technique='exhaustive cell enumeration with a twin (metamorphic) oracle: constness source x write form; the write to the constant must be rejected, the same operation on a mutable object of the same type and scope must be accepted',
        category='exploration',
        text=('31 constness sources (const globals, array elements, struct fields, typedef\'d const, template locals and parameters, '
              'function locals and parameters by value and by reference, iteration and select binders; in update labels and in '
              'function bodies) x 25 write forms (every assignment operator, ++/--, inline-if lvalues with the const branch on '
              'either side, results of assignments as lvalues, reference arguments of functions), whole-object writes, reference '
              'arguments of template instantiations and of spawn T(..), and quantifier binders are enumerated completely. The write to the constant '
              'must be rejected and its mutable twin accepted.'),
        design_ref='DESIGN.md 4/C12',
        note=('Exhaustive for the stated finite cell table only. The "via comma" form of the quantifier text is not expressible in '
              'the grammar and is listed as unreachable. Quantifier binders have no accepted twin.'),
    ),
    'C13': dict(
        engine='oracle-server + cell enumeration (harness/py/prop_C13.py, cells.py)',
        technique='exhaustive cell enumeration with a twin (metamorphic) oracle: compile-time context x dependence chain to a mutable variable; the dependent model must be rejected, the twin with the chain end made const must be accepted; free-parameter cells with 0..3 initialiser hops',
        category='exploration',
        text=('27 compile-time contexts (array sizes, range bounds, scalar-set sizes - global, template, function, struct field, '
              'typedef; six kinds of initialiser; const by-value and const-reference template arguments; select / iteration / '
              'quantifier ranges) x 43 dependence chains to a mutable variable (direct forms and functions reading it in every '
              'statement and initialiser position, call chains to depth 4) plus 42 cells about free process parameters reaching '
              'an array size through 0..3 constant initialisers in seven positions and about template parameters in sizes. '
              'The dependent model must be rejected and its constant twin accepted.'),
        design_ref='DESIGN.md 4/C13',
        note=('Exhaustive for the stated finite cell table only. Types are always used by a variable. A select range that depends '
              'on a free process parameter is accepted by the library and is not covered by the statement (array sizes only); those '
              'cells were removed.'),
    ),
    'C14': dict(
        engine='oracle-server expression builder + TypeChecker::checkExpression; cell enumeration + Hypothesis (harness/py/prop_C14.py)',
        technique='metamorphic testing (operand swap): acceptance and result-type kind of a op b vs b op a, c ? a : b vs !c ? b : a (bare and inside lvalue / reference-argument contexts), f(A&) with a B variable vs f(B&) with an A variable; complete enumeration of type-class pairs x operators, random representatives',
        category='exploration',
        text=('Operands are taken from 32 type classes (one array type in five spellings: by size, index type, typedef\'d index type, size expression, named constant; int, bounded int also typedef\'d / const / as array element and struct field, bool, double, clock, clock difference, clock '
              'constraint, two scalar sets, three struct types, arrays, channel kinds, strings; variables, constants, literals, '
              'compound expressions), each checked to be well typed alone. For all ordered class pairs and the eleven '
              'commutative operators, for inline-if with negated condition (also inside contexts that need an lvalue or a '
              'reference argument, with branches of different constness) and for reference parameters of 34 parameter types the '
              'two operand orders must agree on acceptance and on the kind of the result type.'),
        design_ref='DESIGN.md 4/C14',
        note=('Accepted = checkExpression returns true and no error is recorded. Channel parameters of a different kind than '
              'the argument (documented capability order) and const arguments to const reference parameters (passed by value) '
              'are outside the symmetric domain. One recorded finding (const int& carries no range); three defects repaired in /repo.'),
    ),
    'C17': dict(
        engine='oracle-server + cell enumeration + Hypothesis permutations (harness/py/prop_C17.py, cells.py)',
        technique='cell enumeration (restricting feature x placement x instantiation style) with an implied-verdict oracle and twins, plus metamorphic relations (never-instantiated template carrying a feature, permutation of independent declarations) and a stride of the cells embedded in Hypothesis-generated host models',
        category='exploration',
        text=('Every restricting feature of the statement (clock compared with / assigned from / initialised with a floating '
              'value (also clock arrays and record fields, branches of conditional updates, bodies of called functions), clock rate other than 0 or 1 (also in quantifier bodies, disjuncts, implications), dynamic template, non-broadcast channel, priorities incl. one-level and template-local lists) is placed at every '
              'listed placement (conjunct positions, operand orders, all relational operators, guard and invariant, update list '
              'positions, global and local declarations, first/last) and in five ways of entering the system; the verdict for '
              'the affected analysis must be false. The twin without the feature makes each cell attributable. A stride of the cells is also spliced into generated host models (identifiers renamed apart), where the same implied verdict is required. Adding a '
              'never-instantiated template with a feature, or permuting independent declarations, must not change the verdict.'),
        design_ref='DESIGN.md 4/C17',
        note=('One-directional as stated. Non-constant clock rates are outside the cells (the repository\'s own test expects symbolic '
              'support there). Seven detector defects were repaired in /repo; replays of their minimal cells are run first.'),
    ),
    'C18': dict(
        engine='rapidcheck + exhaustive loops (harness/cpp/c18.cpp)',
        technique='exhaustive enumeration over int8_t + rapidcheck property-based testing over int32_t/double against set semantics in wide arithmetic',
        category='exploration',
        text=('Every range_t operation is compared with its set-theoretic definition computed in wider arithmetic: '
              'exhaustively for int8_t (element operations over all a<=b,e; binary operations over a boundary-complete '
              'strided (quick) or the complete (thorough) operand space, plus a brute-force pointwise hull for + - * on '
              'small magnitudes; operands that alias the object: r op= r, r op= r.first() / r.last() against the same call with a copy) and by boundary-biased random generation for int32_t and double under UBSan. This is '
              'exploration: exhaustive only for the int8_t sub-space, sampled elsewhere.'),
        design_ref='DESIGN.md 4/C18',
        note=('Trusted: the reference formulas in c18.cpp (validated against brute-force pointwise hulls on |x|<=9), clang 14 '
              '-O2 with UBSan, libstdc++. Results that overflow T or are NaN are outside the statement and skipped (counted). '
              'size() is not checked for double (the header counts "discrete elements", meaningful for integral T only).'),
    ),
}

NOT_YET = 'check not built yet in this revision of /verif (work in progress; the design in DESIGN.md section 4 applies)'


def main():
    props = [json.loads(l) for l in open(os.path.join(V, 'properties.jsonl'))]
    checks = []
    na = []
    for p in props:
        pid = p['id']
        c = CHECKS.get(pid)
        if not c:
            na.append({'property_id': pid, 'reason': NOT_YET})
            continue
        checks.append({
            'property_id': pid,
            'quick_cmd': './check %s --tier quick' % pid,
            'thorough_cmd': './check %s --tier thorough' % pid,
            'evidence_file': 'evidence/%s.json' % pid,
            'replay_cmd_template': './check %s --replay {path}' % pid,
            'engine': c['engine'],
            'level_claimed': {'category': c['category'], 'text': c['text'], 'design_ref': c['design_ref']},
            'level_note': c['note'],
            'technique': c['technique'],
        })
    m = {
        'version': 1,
        'setup_cmd': 'bin/setup.sh',
        'hooks': {
            'guard': 'UTAP_VERIF',
            'enable': 'bin/build-utap.sh compiles /repo with -DUTAP_VERIF (no hook is currently needed: the state the '
                      'harness resets or seeds - UTAP::tracker, utap_lex_destroy - is already exported by the library)',
            'baseline_off_cmd': 'cmake --build /repo/_build -j16 && ctest --test-dir /repo/_build -j8 --timeout 900',
            'source_commits': [],
            'add_only': True,
        },
        'engines': [
            {'name': 'oracle-server', 'path': 'harness/cpp/oracle.cpp', 'serves_properties': [c for c in CHECKS if c not in ('C18',)],
             'kind_free_text': 'sanitized (ASan+UBSan) C++ server that executes every request in a child forked from a pristine process and returns a canonical JSON dump; driven by Hypothesis strategies and deterministic enumerations in harness/py'},
            {'name': 'c18', 'path': 'harness/cpp/c18.cpp', 'serves_properties': ['C18'],
             'kind_free_text': 'standalone exhaustive + rapidcheck target for the header-only range_t'},
        ],
        'checks': checks,
        'not_applicable': na,
        'notes': 'Genuine defects repaired in /repo are listed under "fixed" in known_findings.json; recorded ones under "findings". '
                 'Every check rebuilds libutap from /repo\'s working tree through bin/build-utap.sh (content-hash cache under .build/).',
    }
    with open(os.path.join(V, 'MANIFEST.json'), 'w') as f:
        json.dump(m, f, indent=1)
        f.write('\n')


if __name__ == '__main__':
    main()
