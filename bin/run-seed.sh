#!/bin/bash
# run-seed.sh <seed-dir> <ID>... : apply a seeded change to /repo, run the quick tier of the given checks against it
# (own build root so the cache of the unchanged tree survives), and undo the change straight afterwards.
set -u
D=$(cd "$1" && pwd); shift
V=$(cd "$(dirname "$0")/.." && pwd)
[ -z "$(git -C /repo status --porcelain --untracked-files=no)" ] || { echo "/repo has local changes"; exit 2; }
git -C /repo apply "$D/patch.diff" || { echo "patch does not apply"; exit 2; }
trap 'git -C /repo checkout -- . ' EXIT
export UTAP_BUILD_ROOT=$V/.build-mut
export VERIF_EVIDENCE_DIR=$V/.work/mut-evidence   # never overwrite the real evidence with a mutant run
for id in "$@"; do
  out=$(cd "$V" && VERIF_SEED=${VERIF_SEED:-0} ./check "$id" --tier ${TIER:-quick} 2>&1); rc=$?
  echo "== $(basename "$D") check=$id exit=$rc"
  echo "$out" | grep -E "VIOLATION|KNOWN-FINDING|INFRA|tier=" | cut -c1-300 | head -8
  echo "$out" | grep -E "^  what:" | cut -c1-400 | head -3
done
