#!/bin/bash
# sweep.sh <tier> <seed>... : run every claimed check once per seed on the unchanged tree; one summary line each (development tool)
V=$(cd "$(dirname "$0")/.." && pwd); cd "$V"
TIER=$1; shift
for sd in "$@"; do
  for id in $(python3 -c "import json;print(' '.join(c['property_id'] for c in json.load(open('MANIFEST.json'))['checks']))"); do
    out=$(VERIF_SEED=$sd ./check $id --tier $TIER 2>&1); rc=$?
    echo "seed=$sd $id exit=$rc $(echo "$out" | grep -E "^$id tier=" | cut -c1-160) $(echo "$out" | grep -c '^KNOWN-FINDING') known-lines"
    echo "$out" | grep -E "VIOLATION|INFRA|^  what:" | head -4 | cut -c1-300
  done
done
