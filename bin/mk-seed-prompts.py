#!/usr/bin/env python3
"""usage: mk-seed-prompts.py <round-tag> [ids...]  -- creates scratch worktrees /tmp/seed<tag>-<id> of /repo HEAD and the prompt files
/tmp/seedprompts/<id>.txt for fresh seeding sub-agents. A prompt contains the text of one property and the path of the worktree, nothing from /verif."""
import json, os, subprocess, sys
tag = sys.argv[1]
props = {json.loads(l)['id']: json.loads(l) for l in open('/verif/properties.jsonl')}
ids = sys.argv[2:] or sorted(props)
os.makedirs('/tmp/seedprompts', exist_ok=True)
T = '''You are helping to evaluate a verification harness by planting ONE realistic defect ("seeded change") into a C++ library.

The library is libutap (UPPAAL timed-automata model parser / type checker / printers), checked out as a git worktree at {wt} (this directory is yours alone; work ONLY inside it; never touch /repo or /verif, and do not read anything under /verif). It builds offline with:
  cmake -G Ninja -S {wt} -B {wt}/_build -DCMAKE_BUILD_TYPE=RelWithDebInfo && cmake --build {wt}/_build -j4
and its test suite runs with:  ctest --test-dir {wt}/_build -j4      (6 test executables; all pass on the unchanged tree). There is no network. The machine is busy: builds may take a few minutes.
IMPORTANT: do NOT use `git stash` (the stash is shared between worktrees and other people work in sibling worktrees at the same time). To switch between the changed and the unchanged tree save your change with `git diff > some-file-that-is-not-tracked.diff` and use `git apply` / `git apply -R` (or `git checkout -- <file>`).

The semantic property that your change must BREAK (this text is all you get about it):

  id: {id}
  title: {title}
  statement: {statement}
  quantified over: {qtext}
  why the existing tests cannot settle it: {why}
  code the property is anchored in: {files}
  mechanisms: {mech}

Your task:
1. Read the anchored code and the code around it. Make ONE small, realistic change to the library sources (src/ or include/) - the kind of slip a maintainer could make in a refactoring, optimisation or "clean-up" - that makes the library VIOLATE the property above, while the library still compiles and ALL existing tests still pass (ctest 100%).
2. The violation must need something SPECIFIC to manifest, not show up in ordinary use at once: e.g. an unusual but valid input shape, a particular position/ordering, a multi-step sequence of calls, an error-recovery path, or two cooperating code sites that each look fine alone. Several other people have planted changes for this property before you, and the obvious sites (the functions named in the anchors, their direct helpers, the classic "tests the same operand twice" slip) are taken. Pick something else: a clause of the statement that is easy to overlook, a rarely used language construct that the statement nevertheless covers, a component upstream (lexer, XML reader, builders, symbol table, type construction) or downstream (printers, writers, feature detection) that the anchored code relies on, a data-structure invariant, or an interaction between two components. The change must not crash on ordinary inputs and must not be a mere message-text change.
3. Write a demonstration: a small self-contained C++ program demo.cpp using only the public headers (utap/utap.h, utap/document.h, utap/typechecker.h, utap/range.h ...) plus a script demo.sh with usage `demo.sh <source-dir> <build-dir>` that compiles demo.cpp against <build-dir>/src/libUTAP.a (or .so) (include dirs: <source-dir>/include, <build-dir>/include if present, /usr/include/libxml2; link -lxml2 -ldl) and runs it. The demo must exit 0 on the UNCHANGED tree and exit non-zero WITH your change, by checking the property directly (not by diffing against recorded output). Verify both yourself (rebuild each time).
4. Deliver, in the directory {wt}/seed_out/ :
     patch.diff   (output of `git diff` for your source change only; must apply to a clean checkout with `git apply`)
     demo.cpp, demo.sh
     notes.md     (what the change is, why it looks innocent, a section "What is needed for it to manifest", why the existing tests stay green, what you ran and observed with and without the change)
   Leave the worktree's tracked files restored to the unchanged state (the change lives only in patch.diff) when you are done, and do not commit anything.
Report briefly what you did and whether every verification step (build, ctest with change = all pass, demo with change = fails, demo without change = passes) succeeded.'''
for pid in ids:
    p = props[pid]
    wt = '/tmp/seed%s-%s' % (tag, pid)
    subprocess.run(['git', '-C', '/repo', 'worktree', 'add', '--detach', wt, 'HEAD'], stdout=subprocess.DEVNULL, stderr=subprocess.DEVNULL)
    txt = T.format(wt=wt, id=pid, title=p['title'], statement=p['statement'], qtext=p['quantifier']['text'], why=p['why_tests_cant'],
                   files=', '.join(p['anchors']['files']), mech='; '.join('%s (%s)' % (m['name'], m['where']) for m in p['anchors']['mechanism']))
    open('/tmp/seedprompts/%s.txt' % pid, 'w').write(txt)
print(len(ids), 'prompts')
