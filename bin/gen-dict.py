#!/usr/bin/env python3
"""gen-dict.py <repo> <out>: libFuzzer dictionary from keywords.cpp, lexer.l and xmlreader.cpp of the tree under test"""
import re, sys
repo, out = sys.argv[1], sys.argv[2]
words = set()
kw = open(repo + '/src/keywords.cpp').read()
words |= set(re.findall(r'\{"([A-Za-z_0-9]+)"', kw))
lx = open(repo + '/src/lexer.l').read()
for m in re.finditer(r'^"((?:[^"\\]|\\.)+)"', lx, re.M):
    w = m.group(1).replace('\\\\', '\\').replace('\\"', '"')
    if '\\n' in w or '\\t' in w:
        continue
    words.add(w)
xr = open(repo + '/src/xmlreader.cpp').read()
tags = set(re.findall(r'\{"([a-z]+)",\s+tag_t::', xr))
for t in tags:
    words.add('<%s>' % t); words.add('</%s>' % t); words.add('<%s/>' % t)
for a in ['id=', 'ref=', 'kind=', 'controllable=', 'action=', 'key=', 'value=', 'outcome=', 'type=', 'unit=', 'instanceid=', 'x=', 'y=']:
    words.add(' %s"' % a)
for k in ['invariant', 'exponentialrate', 'select', 'guard', 'synchronisation', 'assignment', 'probability', 'message', 'update', 'condition', 'comments']:
    words.add('kind="%s"' % k)
words |= {'&lt;', '&gt;', '&amp;', '<![CDATA[', ']]>', '<!--', '-->', '/*', '*/', '//', '\\\n', '2147483647', '2147483648', '-2147483648',
          '4294967296', '1e308', '1e-320', '0.5', "x'", 'int[0,3]', 'A[]', 'E<>', 'Pr[<=10]', 'E[<=10;5]', 'simulate [<=10]', '{', '}', ' : ',
          'P.x', 'forall (i : int[0,1])', 'struct { int a; }', 'const int N = 2;', 'typedef', '&#13;&#10;', '\r\n', 'import "', '__', 'EXPECT:'}
def esc(w):
    o = ''
    for ch in w.encode('latin-1', 'replace'):
        if ch == 0x5c: o += '\\\\'
        elif ch == 0x22: o += '\\"'
        elif 32 <= ch < 127: o += chr(ch)
        else: o += '\\x%02x' % ch
    return o
with open(out, 'w') as f:
    for w in sorted(words):
        if w:
            f.write('"%s"\n' % esc(w))
