#!/bin/bash
# Run once after a fresh restore, offline: builds libutap (sanitized) from /repo and the harness binaries.
set -u
cd "$(dirname "$0")/.."
mkdir -p .build .work evidence
bin/build-harness.sh oracle c18 fuzz || exit 1
echo "setup ok"
