#!/bin/bash
# collect-seed.sh <round> <id>... : takes a finished seeding worktree /tmp/seed<round>-<id>/seed_out into seeded/<id>-<round>, removes the worktree,
# confirms the change independently (bin/confirm-seed.sh) and runs the check of its property against it in a scratch worktree (bin/seed-matrix-wt.sh).
V=$(cd "$(dirname "$0")/.." && pwd); cd "$V"
r=$1; shift
for id in "$@"; do
  d=seeded/$id-$r
  mkdir -p $d
  cp /tmp/seed$r-$id/seed_out/* $d/ 2>/dev/null
  git -C /repo worktree remove --force /tmp/seed$r-$id >/dev/null 2>&1; rm -rf /tmp/seed$r-$id
  [ -f $d/patch.diff ] || { echo "$id-$r no patch delivered" >> .work/seed-matrix-round$r.log; continue; }
  bin/confirm-seed.sh $d >> .work/confirm-round$r.log 2>&1
  bin/seed-matrix-wt.sh $d >> .work/seed-matrix-round$r.log 2>&1
done
git -C /repo worktree prune
