#!/usr/bin/env python3
"""gen-kinds.py <common.h> : emit a C++ initialiser list mapping kind_t values to names,
taken from the enum itself (so the dump prints kinds by name whatever their numbers)."""
import re, sys
src = open(sys.argv[1]).read()
src = re.sub(r'/\*.*?\*/', '', src, flags=re.S)
src = re.sub(r'//[^\n]*', '', src)
m = re.search(r'enum\s+kind_t\s*\{(.*?)\}', src, re.S)
names = [n.strip() for n in m.group(1).split(',') if n.strip()]
for n in names:
    assert re.fullmatch(r'[A-Za-z_0-9]+', n), n
    print('{UTAP::Constants::%s, "%s"},' % (n, n))
