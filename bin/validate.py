#!/usr/local/bin/python3-vt
"""validate MANIFEST.json and evidence/*.json against the given schemas"""
import json, sys, glob, os
import jsonschema
V = os.path.dirname(os.path.dirname(os.path.abspath(__file__)))
ms = json.load(open('/root/.vp/MANIFEST.schema.json'))
es = json.load(open('/root/.vp/EVIDENCE.schema.json'))
m = json.load(open(os.path.join(V, 'MANIFEST.json')))
jsonschema.validate(m, ms)
props = [json.loads(l)['id'] for l in open(os.path.join(V, 'properties.jsonl'))]
claimed = [c['property_id'] for c in m['checks']]
na = [c['property_id'] for c in m.get('not_applicable', [])]
assert sorted(claimed + na) == sorted(props), (sorted(claimed + na), props)
for f in sorted(glob.glob(os.path.join(V, 'evidence', '*.json'))):
    e = json.load(open(f))
    jsonschema.validate(e, es)
    print('ok', os.path.basename(f), e['tier'], e['coverage'].get('evaluations'), e['coverage'].get('distinct_nontrivial'))
print('MANIFEST ok; claimed', claimed)
