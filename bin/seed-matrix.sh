#!/bin/bash
# seed-matrix.sh [seed-dir ...] : run every seeded change against the check of its own property (quick tier); one summary line each.
# Development tool (applies patches to /repo one at a time and restores it); not used by any MANIFEST command.
V=$(cd "$(dirname "$0")/.." && pwd)
cd "$V"
[ $# -gt 0 ] || set -- seeded/*/
for d in "$@"; do
  n=$(basename "$d"); id=${n%%-*}
  out=$(bin/run-seed.sh "$d" "$id" 2>&1)
  rc=$(echo "$out" | sed -n 's/.*exit=\([0-9]*\).*/\1/p' | head -1)
  what=$(echo "$out" | grep -m1 "^  what:" | cut -c1-220)
  echo "$n check=$id exit=${rc:-?} $what"
done
