// C19: algebraic laws of expression_t::clone_deeper / subst / equal / get_size, evaluated on every expression of the
// document (and of the queries parsed on it). Public API of expression_t only.
#pragma once
#include <cmath>

struct LawRunner
{
    Dumper& d;
    Document& doc;
    size_t n_exprs = 0, n_nodes = 0, n_perturb = 0, n_subst = 0, n_checks = 0;
    std::map<std::string, long long> kinds;
    std::vector<std::array<std::string, 4>> failures;  // where, law, detail, expr
    size_t max_nodes;

    LawRunner(Dumper& d, Document& doc, size_t max_nodes): d{d}, doc{doc}, max_nodes{max_nodes} {}

    using Path = std::vector<uint32_t>;
    void collect(const expression_t& e, Path& p, std::vector<Path>& out)
    {
        if (e.empty() || out.size() >= max_nodes)
            return;
        out.push_back(p);
        size_t n = e.get_size();
        for (uint32_t i = 0; i < n; ++i) {
            p.push_back(i);
            collect(e.get(i), p, out);  // get(i) for every i < get_size(): an over-reported size shows under ASan
            p.pop_back();
        }
    }
    static const expression_t& at(const expression_t& root, const Path& p)
    {
        const expression_t* cur = &root;
        for (auto i : p)
            cur = &cur->get(i);
        return *cur;
    }
    // deep copy of root with the node at path replaced
    static expression_t replaced(const expression_t& root, const Path& p, const expression_t& repl)
    {
        if (p.empty())
            return repl;
        expression_t c = root.clone_deeper();
        expression_t* cur = &c;
        for (size_t i = 0; i + 1 < p.size(); ++i)
            cur = &cur->get(p[i]);
        cur->get(p.back()) = repl;
        return c;
    }
    void fail(const std::string& where, const std::string& law, const std::string& detail, const expression_t& e)
    {
        if (failures.size() < 20)
            failures.push_back({where, law, detail, d.expr_str(e)});
    }
    static bool swap_kind(kind_t k, kind_t& out, int& arity)
    {
        static const std::pair<kind_t, kind_t> bin[] = {{PLUS, MINUS},     {MULT, DIV},  {LT, LE},         {GE, GT},  {EQ, NEQ},
                                                        {AND, OR},         {BIT_AND, BIT_OR}, {MIN, MAX},  {ASSIGN, ASS_PLUS}, {BIT_LSHIFT, BIT_RSHIFT},
                                                        {ASS_MINUS, ASS_MULT}, {MOD, BIT_XOR}};
        static const std::pair<kind_t, kind_t> un[] = {{NOT, UNARY_MINUS}, {PRE_INCREMENT, PRE_DECREMENT}, {POST_INCREMENT, POST_DECREMENT}};
        for (auto& pr : bin) {
            if (pr.first == k) { out = pr.second; arity = 2; return true; }
            if (pr.second == k) { out = pr.first; arity = 2; return true; }
        }
        for (auto& pr : un) {
            if (pr.first == k) { out = pr.second; arity = 1; return true; }
            if (pr.second == k) { out = pr.first; arity = 1; return true; }
        }
        return false;
    }
    symbol_t other_symbol(const symbol_t& s)
    {
        frame_t gf = doc.get_globals().frame;
        for (uint32_t i = 0; i < gf.get_size(); ++i)
            if (gf[i] != s && gf[i] != symbol_t())
                return gf[i];
        return symbol_t();
    }

    void run(const std::string& where, const expression_t& e)
    {
        if (e.empty())
            return;
        ++n_exprs;
        const std::string dump0 = d.expr_str(e);
        const std::string type0 = d.type_str(e.get_type());
        std::vector<Path> paths;
        Path p;
        collect(e, p, paths);
        n_nodes += paths.size();
        for (auto& q : paths)
            ++kinds[kind_name(at(e, q).get_kind())];

        // ---- clone_deeper
        expression_t c = e.clone_deeper();
        ++n_checks;
        if (!c.equal(e) || !e.equal(c))
            fail(where, "clone-equal", "a deep clone is not equal() to its original", e);
        if (d.expr_str(c) != dump0)
            fail(where, "clone-dump", "a deep clone dumps differently: " + d.expr_str(c), e);
        {
            std::vector<Path> cpaths;
            Path cp;
            collect(c, cp, cpaths);
            if (cpaths.size() != paths.size())
                fail(where, "clone-shape", "a deep clone has a different number of nodes", e);
            else if (paths.size() <= 120) {
                for (auto& a : paths)
                    for (auto& b : cpaths)
                        if (at(e, a) == at(c, b)) {
                            fail(where, "clone-shares-node", "node " + std::string(kind_name(at(e, a).get_kind())) + " of the original is the same object as a node of the clone", e);
                            goto shared_done;
                        }
            shared_done:;
            } else {
                for (size_t i = 0; i < paths.size(); ++i)
                    if (at(e, paths[i]) == at(c, cpaths[i])) {
                        fail(where, "clone-shares-node", "a node of the original is the same object as the corresponding node of the clone", e);
                        break;
                    }
            }
            // later changes to the clone do not affect the original (and vice versa)
            type_t marker = type_t::create_primitive(Constants::VOID_TYPE);
            for (auto& b : cpaths) {
                expression_t* cur = &c;
                for (auto i : b)
                    cur = &cur->get(i);
                cur->set_type(marker);
            }
            if (c.get_size() > 0)
                c.get(0) = expression_t::create_constant(424242);
            ++n_checks;
            if (d.expr_str(e) != dump0 || d.type_str(e.get_type()) != type0)
                fail(where, "clone-independent", "changing the clone changed the original: " + d.expr_str(e), e);
            bool types_ok = true;
            for (auto& a : paths)
                if (at(e, a).get_type() == marker)
                    types_ok = false;
            if (!types_ok)
                fail(where, "clone-independent", "set_type on a node of the clone changed the type of a node of the original", e);
            // and the other way round: change a fresh clone's source
            expression_t src = e.clone_deeper();
            expression_t c2 = src.clone_deeper();
            const std::string c2dump = d.expr_str(c2);
            if (src.get_size() > 0)
                src.get(src.get_size() - 1) = expression_t::create_constant(-7);
            src.set_type(marker);
            if (d.expr_str(c2) != c2dump || c2.get_type() == marker)
                fail(where, "clone-independent", "changing the original changed the clone", e);
        }

        // ---- equal: reflexive, symmetric, transitive, implies equal text
        {
            expression_t c1 = e.clone_deeper(), c2 = c1.clone_deeper();
            ++n_checks;
            if (!e.equal(e))
                fail(where, "equal-reflexive", "e.equal(e) is false", e);
            if (e.equal(c1) != c1.equal(e))
                fail(where, "equal-symmetric", "equal is not symmetric on (e, clone)", e);
            if (e.equal(c1) && c1.equal(c2) && !e.equal(c2))
                fail(where, "equal-transitive", "equal is not transitive on (e, clone, clone of clone)", e);
            std::string s1, s2, ex;
            if (e.equal(c1) && safe_str(e, s1, ex) && safe_str(c1, s2, ex) && s1 != s2)
                fail(where, "equal-text", "equal trees print differently: '" + s1 + "' vs '" + s2 + "'", e);
        }

        // ---- text, change below, text again: "later changes to either do not affect the other" also means that a changed tree and a
        //      fresh clone of it agree in every observation (equal both ways, same text), however often the text was asked for before
        {
            expression_t w = e.clone_deeper();
            std::string before, after, fresh_text, ex;
            if (safe_str(w, before, ex)) {
                // replace the deepest integer constant below the root by one that prints differently
                std::vector<Path> wpaths;
                Path wp;
                collect(w, wp, wpaths);
                const Path* deepest = nullptr;
                for (auto& q : wpaths) {      // an integer constant keeps every tree well formed (a binder or a callee slot would not take one)
                    if (q.empty() || (deepest != nullptr && q.size() <= deepest->size()))
                        continue;
                    const expression_t& leaf = at(w, q);
                    if (leaf.get_kind() == CONSTANT && leaf.get_type().is_integral() && !leaf.get_type().is_string())
                        deepest = &q;
                }
                if (deepest != nullptr) {
                    expression_t* cur = &w;
                    for (auto i : *deepest)
                        cur = &cur->get(i);
                    *cur = expression_t::create_constant(31337);
                    expression_t fresh = w.clone_deeper();
                    ++n_checks;
                    if (!w.equal(fresh) || !fresh.equal(w))
                        fail(where, "change-then-clone-equal", "a changed tree and its fresh deep clone are not equal()", e);
                    else if (safe_str(w, after, ex) && safe_str(fresh, fresh_text, ex) && after != fresh_text)
                        fail(where, "change-then-text", "after replacing a descendant the tree still prints '" + after + "' while its fresh deep clone prints '" + fresh_text + "'", e);
                    // set_type on a descendant must not freeze the text of the ancestors either
                    expression_t w2 = e.clone_deeper();
                    std::string t0;
                    if (safe_str(w2, t0, ex)) {
                        expression_t* cur2 = &w2;
                        for (auto i : *deepest)
                            cur2 = &cur2->get(i);
                        *cur2 = expression_t::create_constant(-31337);
                        cur2->set_type(type_t::create_primitive(Constants::INT));
                        expression_t fresh2 = w2.clone_deeper();
                        std::string a2, f2;
                        if (safe_str(w2, a2, ex) && safe_str(fresh2, f2, ex) && a2 != f2)
                            fail(where, "change-then-text", "after replacing a descendant and setting its type the tree prints '" + a2 + "', its fresh deep clone '" + f2 + "'", e);
                    }
                }
            }
        }

        // ---- subst
        {
            std::set<symbol_t> syms;
            e.get_symbols(syms);
            // get_symbols may follow types; restrict to symbols that occur in IDENTIFIER nodes of the tree
            std::vector<symbol_t> occurring;
            for (auto& q : paths) {
                const expression_t& n = at(e, q);
                if (n.get_kind() == IDENTIFIER && n.get_symbol() != symbol_t()) {
                    bool seen = false;
                    for (auto& s : occurring)
                        if (s == n.get_symbol())
                            seen = true;
                    if (!seen)
                        occurring.push_back(n.get_symbol());
                }
            }
            expression_t r = expression_t::create_constant(42);
            const std::string rdump = d.expr_str(r);
            size_t budget = 4;
            for (auto& s : occurring) {
                if (budget-- == 0)
                    break;
                ++n_subst;
                expression_t self = e.subst(s, expression_t::create_identifier(s));
                if (d.expr_str(self) != dump0)
                    fail(where, "subst-identity", "substituting " + s.get_name() + " by itself changed the tree: " + d.expr_str(self), e);
                expression_t sub = e.subst(s, r);
                std::string expected = dump0;
                const std::string needle = "(IDENTIFIER " + d.sym_id(s) + ")";
                size_t pos = 0, hits = 0;
                while ((pos = expected.find(needle, pos)) != std::string::npos) {
                    expected.replace(pos, needle.size(), rdump);
                    pos += rdump.size();
                    ++hits;
                }
                if (d.expr_str(sub) != expected)
                    fail(where, "subst-exact", "substituting " + s.get_name() + " by 42 gives " + d.expr_str(sub) + ", expected " + expected, e);
                if (d.expr_str(e) != dump0)
                    fail(where, "subst-pure", "subst changed the expression it was applied to", e);
                if (hits > 0 && sub.equal(e))
                    fail(where, "subst-equal", "the substituted tree is equal() to the original", e);
            }
            // a symbol that does not occur: identity
            symbol_t foreign = other_symbol(occurring.empty() ? symbol_t() : occurring[0]);
            bool occurs = false;
            for (auto& s : occurring)
                if (s == foreign)
                    occurs = true;
            if (foreign != symbol_t() && !occurs) {
                expression_t sub = e.subst(foreign, r);
                if (d.expr_str(sub) != dump0)
                    fail(where, "subst-foreign", "substituting a symbol that does not occur changed the tree", e);
            }
        }

        // ---- single-node perturbations must be distinguished by equal()
        size_t pbudget = 40;
        for (auto& q : paths) {
            if (pbudget == 0)
                break;
            const expression_t& n = at(e, q);
            std::vector<std::pair<std::string, expression_t>> variants;
            kind_t k = n.get_kind();
            try {
                if (k == CONSTANT) {
                    type_t t = n.get_type();
                    if (t.is(Constants::DOUBLE))
                        variants.emplace_back("constant-next-double", expression_t::create_double(std::nextafter(n.get_double_value(), 1e308)));
                    else if (t.is_integral() && !t.is_string())
                        variants.emplace_back("constant-plus-one", expression_t::create_constant(n.get_value() == INT32_MAX ? n.get_value() - 1 : n.get_value() + 1));
                } else if (k == IDENTIFIER) {
                    symbol_t o = other_symbol(n.get_symbol());
                    if (o != symbol_t())
                        variants.emplace_back("other-symbol", expression_t::create_identifier(o));
                } else if (k == DOT) {
                    variants.emplace_back("dot-index", expression_t::create_dot(n.get(0).clone_deeper(), n.get_index() == 0 ? 1 : 0, {}, n.get_type()));
                } else if (k == SYNC) {
                    variants.emplace_back("sync-direction", expression_t::create_sync(n.get(0).clone_deeper(), n.get_sync() == SYNC_BANG ? SYNC_QUE : SYNC_BANG));
                }
                kind_t k2;
                int ar;
                if (swap_kind(k, k2, ar) && (int)n.get_size() == ar) {
                    if (ar == 2)
                        variants.emplace_back("kind-swap", expression_t::create_binary(k2, n.get(0).clone_deeper(), n.get(1).clone_deeper(), {}, n.get_type()));
                    else
                        variants.emplace_back("kind-swap", expression_t::create_unary(k2, n.get(0).clone_deeper(), {}, n.get_type()));
                }
                if (n.get_size() >= 2 && !n.get(0).empty() && !n.get(1).empty() && !n.get(0).equal(n.get(1))) {
                    expression_t sw = n.clone_deeper();
                    expression_t tmp = sw.get(0);
                    sw.get(0) = sw.get(1);
                    sw.get(1) = tmp;
                    variants.emplace_back("children-swapped", sw);
                }
                if ((k == LIST || k == FUN_CALL) && n.get_size() >= 2) {
                    std::vector<expression_t> fewer;
                    for (size_t i = 0; i + 1 < n.get_size(); ++i)
                        fewer.push_back(n.get(i).clone_deeper());
                    variants.emplace_back("child-dropped", expression_t::create_nary(k, fewer, {}, n.get_type()));
                }
            } catch (std::exception& ex) {
                continue;  // accessor not valid for this node shape: no variant
            }
            for (auto& v : variants) {
                if (pbudget == 0)
                    break;
                --pbudget;
                ++n_perturb;
                expression_t pe = replaced(e, q, v.second);
                if (pe.equal(e) || e.equal(pe))
                    fail(where, "equal-distinguishes:" + v.first,
                         "a tree that differs in one node (" + std::string(kind_name(k)) + ", " + v.first + ") is equal() to the original: " + d.expr_str(pe), e);
            }
        }
        if (d.expr_str(e) != dump0)
            fail(where, "purity", "the law checks themselves changed the expression (clone_deeper is not deep)", e);
    }
};

inline void run_laws(JW& j, const Step& st, Document& doc, Dumper& d, const std::vector<std::string>& queries,
                     const std::string& qmode)
{
    LawRunner lr{d, doc, (size_t)atoi(st.get("law_max_nodes", "80").c_str())};
    ExprCollector c;
    if (st.get("law_skip_doc", "0") != "1")
        c.document(doc);
    for (auto& we : c.out)
        lr.run(we.first, we.second);
    size_t qparsed = 0;
    for (auto& q : queries) {
        QueryParse r = parse_query(doc, q, qmode);
        for (auto& e : r.exprs)
            if (!e.empty()) {
                ++qparsed;
                lr.run("query:" + q, e);
            }
    }
    // ---- equality across documents of one process: expressions of documents parsed earlier (kept alive by the request) against this one's
    static std::vector<std::pair<std::string, expression_t>> pool;
    size_t n_cross = 0;
    if (st.get("law_cross", "0") == "1") {
        std::vector<std::pair<std::string, expression_t>> mine;
        for (auto& we : c.out)
            if (!we.second.empty() && mine.size() < 400)
                mine.push_back(we);
        for (auto& me : mine)
            for (auto& pe : pool) {
                ++n_cross;
                bool ab = me.second.equal(pe.second), ba = pe.second.equal(me.second);
                if (ab != ba)
                    lr.failures.push_back({me.first + " / " + pe.first, "cross-document-equal-symmetric", "a.equal(b) != b.equal(a) for expressions of two documents", d.expr_str(me.second)});
                else if (ab) {
                    std::string sa, sb;
                    try {
                        sa = me.second.str();
                        sb = pe.second.str();
                    } catch (std::exception&) {
                        continue;
                    }
                    if (sa != sb)
                        lr.failures.push_back({me.first + " / " + pe.first, "cross-document-equal-implies-text", "equal() holds for '" + sa + "' and '" + sb + "' of two documents", d.expr_str(me.second)});
                }
            }
        for (auto& me : mine)
            if (pool.size() < 1200)
                pool.push_back(me);
    }
    // ---- type_t::subst (used by expr_dot for P.x): substituting a template parameter in the type of a template variable
    size_t n_type_subst = 0;
    auto type_laws = [&](template_t& t) {
        frame_t params = t.parameters;
        if (params == frame_t())
            return;
        for (uint32_t qi = 0; qi < params.get_size(); ++qi) {
            symbol_t q = params[qi];
            const std::string needle = "(IDENTIFIER " + d.sym_id(q) + ")";
            expression_t r = expression_t::create_constant(7);
            const std::string rd = d.expr_str(r);
            for (uint32_t vi = 0; vi < t.frame.get_size(); ++vi) {
                symbol_t v = t.frame[vi];
                type_t ty = v.get_type();
                kind_t k = ty.get_kind();
                if (k == FUNCTION || k == FUNCTION_EXTERNAL || k == LOCATION || k == BRANCHPOINT || ty.is_location())
                    continue;
                const std::string before = d.type_str(ty);
                if (before.find(needle) == std::string::npos && (qi + vi) % 3 != 0)
                    continue;   // a sample of the types that do not mention the parameter is enough
                ++n_type_subst;
                type_t sub = ty.subst(q, r);
                std::string expected = before;
                size_t pos = 0;
                while ((pos = expected.find(needle, pos)) != std::string::npos) {
                    expected.replace(pos, needle.size(), rd);
                    pos += rd.size();
                }
                const std::string where = "T(" + t.uid.get_name() + ")." + v.get_name() + "[" + q.get_name() + ":=7]";
                if (d.type_str(sub) != expected)
                    lr.failures.push_back({where, "type-subst-exact", "type " + before + " becomes " + d.type_str(sub) + ", expected " + expected, "(TYPE)"});
                if (d.type_str(ty) != before)
                    lr.failures.push_back({where, "type-subst-pure", "subst changed the type it was applied to", "(TYPE)"});
                type_t self = ty.subst(q, expression_t::create_identifier(q));
                if (d.type_str(self) != before)
                    lr.failures.push_back({where, "type-subst-identity", "substituting the parameter by itself gives " + d.type_str(self), "(TYPE)"});
            }
        }
    };
    if (st.get("law_skip_doc", "0") != "1")
        for (auto& t : doc.get_templates())
            type_laws(t);
    j.k("laws").o();
    j.k("type_substitutions").num((long long)n_type_subst);
    j.k("cross_document_pairs").num((long long)n_cross);
    j.k("expressions").num((long long)lr.n_exprs);
    j.k("query_expressions").num((long long)qparsed);
    j.k("nodes").num((long long)lr.n_nodes);
    j.k("perturbations").num((long long)lr.n_perturb);
    j.k("substitutions").num((long long)lr.n_subst);
    j.k("kinds").o();
    for (auto& kv : lr.kinds)
        j.k(kv.first).num(kv.second);
    j.e();
    j.k("failures").a();
    for (auto& f : lr.failures) {
        j.o();
        j.k("where").str(f[0]);
        j.k("law").str(f[1]);
        j.k("detail").str(f[2]);
        j.k("expr").str(f[3]);
        j.e();
    }
    j.e();
    j.e();
}
