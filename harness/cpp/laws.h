// C19 laws (filled in later)
#pragma once
inline void run_laws(JW& j, const Step& st, Document& doc, Dumper& d, const std::vector<std::string>& queries,
                     const std::string& qmode)
{
    j.k("laws").o();
    j.e();
}
