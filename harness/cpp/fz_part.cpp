// byte 0: xta_part_t (mod 21), byte 1: bit0 newxta, bits1-2 builder (0 DocumentBuilder on a base doc, 1 pretty,
// 2 ExpressionBuilder, 3 DocumentBuilder on an empty doc)
#include "fuzz_common.h"
extern "C" int LLVMFuzzerTestOneInput(const uint8_t* data, size_t size)
{
    if (size < 2)
        return 0;
    reset_state();
    ReachReport reach_report;
    auto part = (xta_part_t)(data[0] % 21);
    bool newxta = data[1] & 1;
    int b = (data[1] >> 1) & 3;
    std::string in((const char*)data + 2, size - 2);
    Document doc;
    if (b == 0 || b == 2) {
        parse_XML_buffer(BASE_DOCS[0], &doc, true);
        doc.clear_errors();
    }
    if (b == 1) {
        std::ostringstream os;
        PrettyPrinter pp(os);
        guarded_call([&] { parse_XTA(in.c_str(), &pp, newxta, part, ""); });
    } else if (b == 2) {
        ExpressionBuilder eb(doc);
        guarded_call([&] { parse_XTA(in.c_str(), &eb, newxta, part, ""); });
    } else {
        DocumentBuilder db(doc);
        guarded_call([&] { parse_XTA(in.c_str(), &db, newxta, part, ""); });
        doc_oracles(doc, false);
    }
    return 0;
}
