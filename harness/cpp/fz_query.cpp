// byte 0: bits0-1 base document (0 TA, 1 SMC, 2 game), bit2: FILE* entry; rest: query text for TigaPropertyBuilder
#include "fuzz_common.h"
extern "C" int LLVMFuzzerTestOneInput(const uint8_t* data, size_t size)
{
    if (size < 1)
        return 0;
    reset_state();
    ReachReport reach_report;
    int base = (data[0] & 3) % 3;
    bool viafile = data[0] & 4;
    std::string in((const char*)data + 1, size - 1);
    Document doc;
    parse_XML_buffer(BASE_DOCS[base], &doc, true);
    if (doc.has_errors())
        oracle_fail("INFRA", "base document has errors");
    TigaPropertyBuilder pb(doc);
    if (viafile) {
        FILE* f = fmemopen((void*)in.data(), in.size(), "rb");
        if (!f)
            return 0;
        guarded_call([&] { parseProperty(f, &pb); });
        fclose(f);
    } else
        guarded_call([&] { parseProperty(in.c_str(), &pb); });
    if (oracle_on("c03"))
        for (auto& p : pb.getProperties()) {
            std::string s, ex;
            if (!p.intermediate.empty() && !safe_str(p.intermediate, s, ex))
                oracle_fail("C03", "str() of a query throws: " + ex);
        }
    return 0;
}
