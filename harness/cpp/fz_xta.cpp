// byte 0: bit0 newxta, bits1-2 builder (0 document, 1 builder-only, 2 pretty, 3 document via FILE*)
#include "fuzz_common.h"
extern "C" int LLVMFuzzerTestOneInput(const uint8_t* data, size_t size)
{
    if (size < 1)
        return 0;
    reset_state();
    ReachReport reach_report;
    bool newxta = data[0] & 1;
    int b = (data[0] >> 1) & 3;
    std::string in((const char*)data + 1, size - 1);
    Document doc;
    bool ok = false;
    bool ret = false;
    if (b == 2) {
        std::ostringstream os;
        PrettyPrinter pp(os);
        guarded_call([&] { parse_XTA(in.c_str(), &pp, newxta); });
        return 0;
    } else if (b == 1) {
        DocumentBuilder db(doc);
        ok = guarded_call([&] { ret = parse_XTA(in.c_str(), &db, newxta) == 0; });
    } else if (b == 3) {
        FILE* f = fmemopen((void*)in.data(), in.size(), "rb");
        if (!f)
            return 0;
        ok = guarded_call([&] { ret = parse_XTA(f, &doc, newxta); });
        fclose(f);
    } else
        ok = guarded_call([&] { ret = parse_XTA(in.c_str(), &doc, newxta); });
    doc_oracles(doc, ok && ret);
    return 0;
}
