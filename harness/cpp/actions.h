// Post-parse actions of a step (included by dump.h).
#pragma once

// Collect every expression reachable from the document (labels, initialisers, statements, mappings, ...)
struct ExprCollector
{
    std::vector<std::pair<std::string, expression_t>> out;
    struct SV : ExpressionVisitor
    {
        ExprCollector& c;
        std::string where;
        SV(ExprCollector& c, std::string w): c{c}, where{std::move(w)} {}
        void visitExpression(expression_t e) override { c.add(where, e); }
    };
    void add(const std::string& where, const expression_t& e)
    {
        if (!e.empty())
            out.emplace_back(where, e);
    }
    void decls(declarations_t& d, const std::string& w)
    {
        for (auto& v : d.variables)
            add(w + ".init(" + v.uid.get_name() + ")", v.init);
        for (auto& f : d.functions) {
            for (auto& v : f.variables)
                add(w + "." + f.uid.get_name() + ".init(" + v.uid.get_name() + ")", v.init);
            if (f.body) {
                SV sv{*this, w + "." + f.uid.get_name() + ".body"};
                f.body->accept(&sv);
            }
        }
        for (auto& p : d.progress) {
            add(w + ".progress.guard", p.guard);
            add(w + ".progress.measure", p.measure);
        }
    }
    void templ(template_t& t)
    {
        std::string w = "T(" + t.uid.get_name() + ")";
        decls(t, w);
        for (auto& l : t.locations) {
            add(w + ".L(" + l.uid.get_name() + ").inv", l.invariant);
            add(w + ".L(" + l.uid.get_name() + ").rate", l.exp_rate);
            add(w + ".L(" + l.uid.get_name() + ").cost", l.cost_rate);
        }
        for (auto& e : t.edges) {
            std::string ew = w + ".E" + std::to_string(e.nr);
            add(ew + ".guard", e.guard);
            add(ew + ".sync", e.sync);
            add(ew + ".assign", e.assign);
            add(ew + ".prob", e.prob);
        }
        for (auto& kv : t.mapping)
            add(w + ".map", kv.second);
    }
    void document(Document& doc)
    {
        decls(doc.get_globals(), "g");
        for (auto& t : doc.get_templates())
            templ(t);
        for (auto* t : doc.get_dynamic_templates())
            templ(*t);
        for (auto& p : doc.get_processes())
            for (auto& kv : p.mapping)
                add("P(" + p.uid.get_name() + ").map", kv.second);
        add("before_update", doc.get_before_update());
        add("after_update", doc.get_after_update());
        for (auto& cp : doc.get_chan_priorities()) {
            add("chanprio", cp.head);
            for (auto& en : cp.tail)
                add("chanprio", en.second);
        }
    }
};

// parse one query with a fresh TigaPropertyBuilder; returns the property expressions (in order)
struct QueryParse
{
    long long ret = 0;
    std::string exc_class, exc_what;
    bool exc_std = true;
    std::vector<expression_t> exprs;
    std::vector<int> types;
    size_t new_errors = 0, new_warnings = 0;
    std::vector<std::string> msgs;
};

inline QueryParse parse_query(Document& doc, const std::string& text, const std::string& mode)
{
    QueryParse r;
    size_t e0 = doc.get_errors().size(), w0 = doc.get_warnings().size();
    try {
        if (mode == "expr" || mode == "exprp") {
            ScopedExprBuilder b{doc, mode == "exprp"};
            r.ret = parse_XTA(text.c_str(), &b, true, S_EXPRESSION, "");
            for (int i = (int)b.getExpressions().size() - 1; i >= 0; --i)
                r.exprs.push_back(b.getExpressions()[i]);
        } else {
            TigaPropertyBuilder b{doc};
            r.ret = parseProperty(text.c_str(), &b);
            for (auto& p : b.getProperties()) {
                r.exprs.push_back(p.intermediate);
                r.types.push_back((int)p.type);
            }
        }
    } catch (std::exception& e) {
        r.exc_class = demangle(typeid(e).name());
        r.exc_what = e.what();
    } catch (...) {
        r.exc_class = "non-std";
        r.exc_std = false;
    }
    r.new_errors = doc.get_errors().size() - e0;
    r.new_warnings = doc.get_warnings().size() - w0;
    for (size_t i = e0; i < doc.get_errors().size(); ++i)
        r.msgs.push_back("E:" + doc.get_errors()[i].msg);
    for (size_t i = w0; i < doc.get_warnings().size(); ++i)
        r.msgs.push_back("W:" + doc.get_warnings()[i].msg);
    return r;
}

inline void dump_queryparse(JW& j, Dumper& d, const QueryParse& q)
{
    j.k("ret").num(q.ret);
    if (q.exc_class.empty())
        j.k("exc").null();
    else {
        j.k("exc").o();
        j.k("class").str(q.exc_class);
        j.k("what").str(q.exc_what);
        j.k("std").boolean(q.exc_std);
        j.e();
    }
    j.k("new_errors").num((long long)q.new_errors);
    j.k("new_warnings").num((long long)q.new_warnings);
    j.k("msgs").a();
    for (auto& m : q.msgs)
        j.str(m);
    j.e();
    j.k("exprs").a();
    for (auto& e : q.exprs)
        j.str(d.expr_str(e));
    j.e();
    j.k("types").a();
    for (int t : q.types)
        j.num(t);
    j.e();
}

// str() guarded: returns false and fills exc on throw
inline bool safe_str(const expression_t& e, std::string& out, std::string& exc)
{
    try {
        out = e.str();
        return true;
    } catch (std::exception& ex) {
        exc = demangle(typeid(ex).name()) + ": " + ex.what();
    } catch (...) {
        exc = "non-std exception";
    }
    return false;
}

#include "laws.h"

inline void run_actions(JW& j, const Step& st, Document& doc, Dumper& d, const std::string& workdir, int idx)
{
    const std::string actions = "," + st.get("actions", "") + ",";
    auto has = [&](const char* a) { return actions.find(std::string(",") + a + ",") != std::string::npos; };
    const std::string qmode = st.get("qmode", "query");
    std::vector<std::string> queries = st.has("queries") ? split_lines(st.get("queries")) : std::vector<std::string>{};

    if (has("queries")) {
        j.k("queries").a();
        for (auto& q : queries) {
            j.o();
            j.k("text").str(q);
            QueryParse r = parse_query(doc, q, qmode);
            dump_queryparse(j, d, r);
            j.k("strs").a();
            for (auto& e : r.exprs) {
                std::string s, ex;
                if (safe_str(e, s, ex))
                    j.str(s);
                else
                    j.str("<throws " + ex + ">");
            }
            j.e();
            if (st.get("dot_types", "0") == "1") {
                // C07: type of every process-member access (P.x) in the parsed query
                j.k("dot_types").a();
                std::function<void(const expression_t&)> walk = [&](const expression_t& e) {
                    if (e.empty())
                        return;
                    if (e.get_kind() == DOT) {
                        j.o();
                        j.k("node").str(d.expr_str(e));
                        j.k("type").str(d.type_str(e.get_type()));
                        j.e();
                    }
                    for (size_t i = 0; i < e.get_size(); ++i)
                        walk(e.get(i));
                };
                for (auto& e : r.exprs)
                    walk(e);
                j.e();
            }
            if (st.get("rootkind", "0") == "1") {
                j.k("root_type_kinds").a();
                for (auto& e : r.exprs)
                    j.str(e.empty() ? "()" : kind_name(e.get_type().get_kind()));
                j.e();
            }
            j.e();
        }
        j.e();
    }
    if (has("roundtrip")) {
        // C03: e1 = parse(q); s1 = str(e1); e2 = parse(s1); s2 = str(e2)
        j.k("roundtrip").a();
        for (auto& q : queries) {
            j.o();
            j.k("text").str(q);
            QueryParse r1 = parse_query(doc, q, qmode);
            j.k("p1").o();
            dump_queryparse(j, d, r1);
            j.e();
            if (r1.exc_class.empty() && r1.new_errors == 0 && r1.new_warnings == 0 && r1.exprs.size() == 1 &&
                !r1.exprs[0].empty()) {
                std::string s1, ex;
                if (!safe_str(r1.exprs[0], s1, ex)) {
                    j.k("str1_throws").str(ex);
                } else {
                    j.k("s1").str(s1);
                    QueryParse r2 = parse_query(doc, s1, qmode);
                    j.k("p2").o();
                    dump_queryparse(j, d, r2);
                    j.e();
                    if (r2.exc_class.empty() && r2.exprs.size() == 1 && !r2.exprs[0].empty()) {
                        std::string s2;
                        if (!safe_str(r2.exprs[0], s2, ex))
                            j.k("str2_throws").str(ex);
                        else
                            j.k("s2").str(s2);
                        j.k("equal").boolean(r1.exprs[0].equal(r2.exprs[0]));
                    }
                }
            }
            j.e();
        }
        j.e();
    }
    if (has("strall")) {
        // string conversion of every expression of the document must not throw (C03) - crashes show as child death
        ExprCollector c;
        c.document(doc);
        j.k("strall").o();
        j.k("count").num((long long)c.out.size());
        j.k("throws").a();
        for (auto& we : c.out) {
            std::string s, ex;
            if (!safe_str(we.second, s, ex))
                j.str(we.first + ": " + d.expr_str(we.second) + " -> " + ex);
        }
        j.e();
        if (st.get("strall_texts", "0") == "1") {
            j.k("texts").a();
            for (auto& we : c.out) {
                std::string s, ex;
                j.o();
                j.k("where").str(we.first);
                j.k("tree").str(d.expr_str(we.second));
                if (safe_str(we.second, s, ex))
                    j.k("str").str(s);
                else
                    j.k("throws").str(ex);
                j.e();
            }
            j.e();
        }
        j.e();
    }
    if (has("laws"))
        run_laws(j, st, doc, d, queries, qmode);
    if (has("write")) {
        std::string fname = workdir + "/out-" + std::to_string(getpid()) + "-" + std::to_string(idx) + ".xml";
        j.k("write").o();
        long long ret = -99;
        guarded(j, [&] { ret = write_XML_file(fname.c_str(), &doc); });
        j.k("ret").num(ret);
        std::ifstream in(fname, std::ios::binary);
        std::string content{std::istreambuf_iterator<char>{in}, std::istreambuf_iterator<char>{}};
        j.k("content").str(content);
        unlink(fname.c_str());
        // what the document says, in the library's own words (for the independent comparison in python)
        j.k("templates").a();
        for (auto& t : doc.get_templates()) {
            j.o();
            j.k("name").str(t.uid.get_name());
            j.k("is_TA").boolean(t.is_TA);
            j.k("init").str(t.init == symbol_t() ? std::string("") : t.init.get_name());
            j.k("locations").a();
            for (auto& l : t.locations) {
                j.o();
                j.k("name").str(l.uid.get_name());
                std::string s, ex;
                j.k("invariant").str(l.invariant.empty() ? std::string("") : (safe_str(l.invariant, s, ex) ? s : "<throws>"));
                j.k("invariant_true").boolean(l.invariant.is_true());
                j.k("exp_rate").str(l.exp_rate.empty() ? std::string("") : (safe_str(l.exp_rate, s, ex) ? s : "<throws>"));
                j.k("urgent").boolean(l.uid.get_type().is(URGENT));
                j.k("committed").boolean(l.uid.get_type().is(COMMITTED));
                j.e();
            }
            j.e();
            j.k("branchpoints").a();
            for (auto& b : t.branchpoints)
                j.str(b.uid.get_name());
            j.e();
            j.k("edges").a();
            for (auto& e : t.edges) {
                j.o();
                j.k("src").str(Dumper::loc_ref(e.src, e.srcb));
                j.k("dst").str(Dumper::loc_ref(e.dst, e.dstb));
                j.k("control").boolean(e.control);
                std::string s, ex;
                auto lab = [&](const char* key, const expression_t& x) {
                    j.k(key).str(x.empty() ? std::string("") : (safe_str(x, s, ex) ? s : "<throws>"));
                    j.k(std::string(key) + "_true").boolean(x.is_true());
                };
                lab("guard", e.guard);
                lab("sync", e.sync);
                lab("assign", e.assign);
                lab("prob", e.prob);
                j.k("select").a();
                if (e.select != frame_t())
                    for (uint32_t i = 0; i < e.select.get_size(); ++i) {
                        j.o();
                        j.k("name").str(e.select[i].get_name());
                        std::string ts;
                        try {
                            ts = e.select[i].get_type().declaration();
                        } catch (std::exception& x) {
                            ts = "<throws>";
                        }
                        j.k("type").str(ts);
                        j.k("type_tree").str(d.type_str(e.select[i].get_type()));
                        j.e();
                    }
                j.e();
                j.e();
            }
            j.e();
            j.e();
        }
        j.e();
        j.e();
    }
}
