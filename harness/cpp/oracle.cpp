// Oracle server for the model-level checks (DESIGN.md 2.2).
//
// Protocol (stdin/stdout, binary safe):
//   request  := "REQ <nfields>\n" field*      field := "<len>\n" <len bytes> "\n"
//               fields alternate key, value.  Key "step" starts a new step; all
//               following keys up to the next "step" belong to that step.
//   response := "<len>\n" <len bytes of JSON> "\n"
// Every request is executed in a child forked from this (pristine) process, so
// no state leaks between requests and a crash kills only the child.  All steps
// of one request run in the *same* child, in order (that is what C15 needs).
#include "dump.h"

#include <fcntl.h>
#include <poll.h>
#include <sys/resource.h>
#include <sys/time.h>
#include <sys/wait.h>
#include <unistd.h>

#include <csignal>

using Req = std::vector<std::pair<std::string, std::string>>;

extern "C" void __sanitizer_print_stack_trace();
static void on_xcpu(int)
{
    // CPU limit hit: show where the child was spinning, then die with a recognisable status
    const char msg[] = "\nORACLE-TIMEOUT: CPU limit exceeded; stack at that moment:\n";
    (void)!write(2, msg, sizeof msg - 1);
    __sanitizer_print_stack_trace();
    _exit(97);
}

static bool read_exact(int fd, std::string& out, size_t n)
{
    out.resize(n);
    size_t got = 0;
    while (got < n) {
        ssize_t r = read(fd, &out[got], n - got);
        if (r <= 0)
            return false;
        got += r;
    }
    return true;
}
static bool read_line(int fd, std::string& line)
{
    line.clear();
    char ch;
    for (;;) {
        ssize_t r = read(fd, &ch, 1);
        if (r <= 0)
            return false;
        if (ch == '\n')
            return true;
        line += ch;
    }
}
static bool read_request(Req& req)
{
    std::string line;
    if (!read_line(0, line))
        return false;
    if (line.rfind("REQ ", 0) != 0)
        return false;
    int n = atoi(line.c_str() + 4);
    std::vector<std::string> f(n);
    for (int i = 0; i < n; ++i) {
        if (!read_line(0, line))
            return false;
        size_t len = strtoull(line.c_str(), nullptr, 10);
        if (!read_exact(0, f[i], len))
            return false;
        std::string nl;
        if (!read_exact(0, nl, 1))
            return false;
    }
    req.clear();
    for (int i = 0; i + 1 < n; i += 2)
        req.emplace_back(f[i], f[i + 1]);
    return true;
}
static void write_all(int fd, const std::string& s)
{
    size_t off = 0;
    while (off < s.size()) {
        ssize_t w = write(fd, s.data() + off, s.size() - off);
        if (w <= 0)
            return;
        off += w;
    }
}
static void respond(const std::string& json)
{
    std::string hdr = std::to_string(json.size()) + "\n";
    write_all(1, hdr);
    write_all(1, json);
    write_all(1, "\n");
}

int main(int argc, char** argv)
{
    signal(SIGPIPE, SIG_IGN);
    std::string workdir = argc > 1 ? argv[1] : "/tmp";
    long cpu_limit = argc > 2 ? atol(argv[2]) : 60;
    Req req;
    while (read_request(req)) {
        int out[2], err[2];
        if (pipe(out) || pipe(err)) {
            respond("{\"infra\":\"pipe failed\"}");
            continue;
        }
        pid_t pid = fork();
        if (pid < 0) {
            respond("{\"infra\":\"fork failed\"}");
            continue;
        }
        if (pid == 0) {
            close(out[0]);
            close(err[0]);
            dup2(err[1], 2);
            close(err[1]);
            struct rlimit rl
            {
                (rlim_t) cpu_limit, (rlim_t)cpu_limit + 2
            };
            setrlimit(RLIMIT_CPU, &rl);
            signal(SIGXCPU, on_xcpu);
            std::string js = run_request(req, workdir);
            write_all(out[1], js);
            close(out[1]);
            _exit(0);
        }
        close(out[1]);
        close(err[1]);
        std::string js, es;
        struct pollfd pf[2] = {{out[0], POLLIN, 0}, {err[0], POLLIN, 0}};
        int open_fds = 2;
        char buf[65536];
        while (open_fds > 0) {
            int pr = poll(pf, 2, 1000 * (int)(cpu_limit + 30));
            if (pr <= 0) {
                kill(pid, SIGKILL);
                break;
            }
            for (int i = 0; i < 2; ++i) {
                if (pf[i].fd < 0)
                    continue;
                if (pf[i].revents & (POLLIN | POLLHUP | POLLERR)) {
                    ssize_t r = read(pf[i].fd, buf, sizeof buf);
                    if (r <= 0) {
                        close(pf[i].fd);
                        pf[i].fd = -1;
                        --open_fds;
                    } else if (i == 0)
                        js.append(buf, r);
                    else if (es.size() < (1 << 20))
                        es.append(buf, r);
                }
            }
        }
        for (int i = 0; i < 2; ++i)
            if (pf[i].fd >= 0)
                close(pf[i].fd);
        int status = 0;
        struct rusage ru;
        wait4(pid, &status, 0, &ru);
        double cpu = ru.ru_utime.tv_sec + ru.ru_utime.tv_usec / 1e6 + ru.ru_stime.tv_sec + ru.ru_stime.tv_usec / 1e6;
        if (WIFEXITED(status) && WEXITSTATUS(status) == 0 && !js.empty()) {
            // splice cpu time into the object
            js.insert(1, "\"child_cpu_s\":" + std::to_string(cpu) + ",");
            respond(js);
        } else {
            J j;
            j.obj();
            j.key("crash").obj();
            if (WIFSIGNALED(status))
                j.key("signal").num(WTERMSIG(status));
            else
                j.key("exit").num(WIFEXITED(status) ? WEXITSTATUS(status) : -1);
            j.key("timeout").boolean((WIFSIGNALED(status) && (WTERMSIG(status) == SIGXCPU || WTERMSIG(status) == SIGKILL)) ||
                                     (WIFEXITED(status) && WEXITSTATUS(status) == 97));
            if (es.size() > 20000)
                es = es.substr(0, 12000) + "\n...\n" + es.substr(es.size() - 6000);
            j.key("stderr").str(es);
            j.key("partial").str(js.size() > 4000 ? js.substr(0, 4000) : js);
            j.end();
            j.key("child_cpu_s").dbl(cpu);
            j.end();
            respond(j.s);
        }
    }
    return 0;
}
