// Shared part of the libFuzzer targets (C01 layer 2; oracles of C08/C03 can be switched on with FZ_ORACLES).
#pragma once
#include "dump.h"

#include <atomic>

static const char* BASE_DOCS[3] = {
    // plain timed automata
    R"(<nta><declaration>clock x; int i; bool b; chan a; int v[3]; const int N = 3; int f(int k){ return k+1; }</declaration>
<template><name>P</name><parameter>int p</parameter><declaration>clock y; int loc;</declaration>
<location id="id0"><name>L0</name><label kind="invariant">y&lt;=5</label></location><location id="id1"><name>L1</name></location>
<init ref="id0"/><transition><source ref="id0"/><target ref="id1"/><label kind="guard">y&gt;=1</label><label kind="synchronisation">a!</label><label kind="assignment">i=p, y=0</label></transition>
<transition><source ref="id1"/><target ref="id0"/><label kind="synchronisation">a?</label></transition></template>
<system>Q = P(1); R = P(2); system Q, R;</system></nta>)",
    // SMC friendly: broadcast only, doubles, hybrid clock
    R"(<nta><declaration>clock x; hybrid clock h; double d = 0.5; int i; broadcast chan a; int f(int k){ return k+1; }</declaration>
<template><name>P</name><declaration>clock y;</declaration>
<location id="id0"><name>L0</name><label kind="invariant">y&lt;=5 &amp;&amp; h'==d</label><label kind="exponentialrate">2</label></location><location id="id1"><name>L1</name></location>
<init ref="id0"/><transition><source ref="id0"/><target ref="id1"/><label kind="guard">y&gt;=1</label><label kind="synchronisation">a!</label><label kind="assignment">i=i+1, y=0</label></transition>
<transition><source ref="id1"/><target ref="id0"/><label kind="synchronisation">a?</label></transition></template>
<system>Q = P(); R = P(); system Q, R;</system></nta>)",
    // game
    R"(<nta><declaration>clock x; int i; chan a;</declaration>
<template><name>P</name><declaration>clock y;</declaration>
<location id="id0"><name>L0</name><label kind="invariant">y&lt;=5</label></location><location id="id1"><name>L1</name></location><location id="id2"><name>Goal</name></location>
<init ref="id0"/><transition controllable="false"><source ref="id0"/><target ref="id1"/><label kind="guard">y&gt;=1</label><label kind="assignment">y=0</label></transition>
<transition><source ref="id1"/><target ref="id2"/><label kind="guard">y&lt;3</label></transition>
<transition controllable="false"><source ref="id1"/><target ref="id0"/></transition></template>
<system>Q = P(); system Q;</system></nta>)"};

inline bool oracle_on(const char* name)
{
    static std::string o = getenv("FZ_ORACLES") ? getenv("FZ_ORACLES") : "";
    return ("," + o + ",").find(std::string(",") + name + ",") != std::string::npos;
}

[[noreturn]] inline void oracle_fail(const char* tag, const std::string& msg)
{
    fprintf(stderr, "\nORACLE-%s: %s\n", tag, msg.c_str());
    fflush(stderr);
    __builtin_trap();
}

// FZ_REPORT=<file>: append one line per executed input saying whether the grammar was reached (used by the driver to
// measure non-trivial corpus entries; not used while fuzzing)
struct ReachReport
{
    ~ReachReport()
    {
        static const char* path = getenv("FZ_REPORT");
        if (path) {
            FILE* f = fopen(path, "a");
            if (f) {
                fprintf(f, "%d\n", UTAP::tracker.position != 0 ? 1 : 0);
                fclose(f);
            }
        }
    }
};

inline void reset_state()
{
    utap_lex_destroy();
    UTAP::tracker = UTAP::PositionTracker{};
    errno = 0;
}

// post-parse oracles on a document (C08 predicate, C03 "string conversion never throws")
inline void doc_oracles(Document& doc, bool clean)
{
    if (oracle_on("c08")) {
        Dumper d{doc};
        auto bad = d.invariants(clean && !doc.has_errors());
        if (!bad.empty())
            oracle_fail("C08", bad[0]);
    }
    if (oracle_on("c03")) {
        ExprCollector c;
        c.document(doc);
        for (auto& we : c.out) {
            std::string s, ex;
            if (!safe_str(we.second, s, ex))
                oracle_fail("C03", "str() throws at " + we.first + ": " + ex);
        }
    }
}

// run fn; std::exception is a clean rejection, anything else is a violation
template <class F>
inline bool guarded_call(F&& fn)
{
    try {
        fn();
        return true;
    } catch (std::logic_error& e) {
        if (strstr(e.what(), "basic_string") && strstr(e.what(), "null"))
            oracle_fail("C01", std::string("std::string constructed from null: ") + e.what());
        return false;
    } catch (std::exception&) {
        return false;
    } catch (...) {
        oracle_fail("C01", "an exception not derived from std::exception escaped");
    }
}
