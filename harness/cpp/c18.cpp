// C18: range_t agrees with set semantics.
// One oracle (check_case) shared by: exhaustive int8_t enumeration, rapidcheck
// generators for int32_t/double, and --replay of a saved case.
// Build: clang++ -std=c++17 -O1 -g -fsanitize=address,undefined -fno-sanitize-recover=undefined
//        -I$SRC/include c18.cpp -lrapidcheck -lpthread
// Asserts are ON for this target only through the oracle, not the header
// (-DNDEBUG as the baseline), so a violated precondition shows as a wrong answer
// or as UBSan output rather than as an abort in next_value().
#include "utap/range.h"

#include <rapidcheck.h>

#include <atomic>
#include <cinttypes>
#include <cmath>
#include <cstdio>
#include <cstring>
#include <fstream>
#include <limits>
#include <mutex>
#include <optional>
#include <set>
#include <sstream>
#include <string>
#include <thread>
#include <vector>

using UTAP::range_t;

// ---------------------------------------------------------------------------
// The operations, by name.  Every case is (type, op, a, b, c, d, e):
//   A=[a,b] non-empty, B=[c,d] non-empty, e an element.
static const char* OPS[] = {"gt", "geq", "lt", "leq", "and", "or", "and_e", "or_e", "add", "sub", "mul", "add_e", "sub_e",
                            "mul_e", "contains", "intersects", "eq", "eq_e", "less", "greater", "size", "empty_eq", "self", "first_arg", "last_arg"};
static constexpr int NOPS = sizeof(OPS) / sizeof(OPS[0]);

template <typename T>
struct Wide;
template <>
struct Wide<int8_t>
{
    using type = int64_t;
};
template <>
struct Wide<int32_t>
{
    using type = int64_t;
};
template <>
struct Wide<double>
{
    using type = long double;
};

template <typename T>
static std::string show(T v)
{
    std::ostringstream os;
    if constexpr (std::is_floating_point_v<T>) {
        char buf[64];
        snprintf(buf, sizeof buf, "%a", (double)v);
        os << buf;
    } else
        os << (long long)v;
    return os.str();
}

struct Skip
{};  // outside the statement (result overflows the type / NaN arises)

template <typename T>
static bool fits(typename Wide<T>::type v)
{
    if constexpr (std::is_floating_point_v<T>)
        return !std::isnan(v);
    else
        return v >= (typename Wide<T>::type)std::numeric_limits<T>::lowest() &&
               v <= (typename Wide<T>::type)std::numeric_limits<T>::max();
}

// expected interval as optional pair in wide arithmetic (nullopt = empty set)
template <typename W>
using Iv = std::optional<std::pair<W, W>>;

template <typename T>
static std::string describe(const char* op, T a, T b, T c, T d, T e, const std::string& what)
{
    std::ostringstream os;
    os << "op=" << op << " A=[" << show(a) << "," << show(b) << "] B=[" << show(c) << "," << show(d) << "] e=" << show(e)
       << " : " << what;
    return os.str();
}

// compare an implementation range with the expected interval
template <typename T, typename W>
static std::optional<std::string> cmp_range(const range_t<T>& r, const Iv<W>& exp)
{
    if (!exp) {
        if (!r.empty())
            return "expected empty set, got [" + show(r.first()) + "," + show(r.last()) + "]";
        return std::nullopt;
    }
    if (r.empty())
        return "expected [" + show((T)exp->first) + "," + show((T)exp->second) + "], got empty";
    if ((W)r.first() != exp->first || (W)r.last() != exp->second)
        return "expected [" + show((T)exp->first) + "," + show((T)exp->second) + "], got [" + show(r.first()) + "," +
               show(r.last()) + "]";
    return std::nullopt;
}

// returns: nullopt = holds; string = violation description. throws Skip if outside the statement.
template <typename T>
static std::optional<std::string> check_case(int op, T a, T b, T c, T d, T e)
{
    using W = typename Wide<T>::type;
    constexpr bool FP = std::is_floating_point_v<T>;
    const range_t<T> A{a, b}, B{c, d};
    const W wa = a, wb = b, wc = c, wd = d, we = e;
    auto out = [&](const std::optional<std::string>& s) -> std::optional<std::string> {
        if (!s)
            return std::nullopt;
        return describe(OPS[op], a, b, c, d, e, *s);
    };
    auto member_exp = [&](W x, bool pred) { return wa <= x && x <= wb && pred; };
    (void)member_exp;
    switch (op) {
    case 0:    // gt: { x in A | x > e }
    case 1:    // geq
    case 2:    // lt
    case 3: {  // leq
        range_t<T> r = A;
        if (op == 0)
            r.gt(e);
        else if (op == 1)
            r.geq(e);
        else if (op == 2)
            r.lt(e);
        else
            r.leq(e);
        // membership of the end points and their neighbours, and of e and its neighbours
        // (for integers the caller enumerates every e; here we test the witnesses that decide an interval)
        T probes[16];
        int np = 0;
        probes[np++] = a;
        probes[np++] = b;
        probes[np++] = e;
        auto add_nb = [&](T v) {
            if constexpr (FP) {
                if (v < std::numeric_limits<T>::infinity())
                    probes[np++] = (std::nextafter(v, std::numeric_limits<T>::infinity()));
                if (v > -std::numeric_limits<T>::infinity())
                    probes[np++] = (std::nextafter(v, -std::numeric_limits<T>::infinity()));
            } else {
                if (v < std::numeric_limits<T>::max())
                    probes[np++] = (v + 1);
                if (v > std::numeric_limits<T>::lowest())
                    probes[np++] = (v - 1);
            }
        };
        add_nb(a);
        add_nb(b);
        add_nb(e);
        if constexpr (!FP) {
            probes[np++] = (std::numeric_limits<T>::lowest());
            probes[np++] = (std::numeric_limits<T>::max());
        } else {
            probes[np++] = (-std::numeric_limits<T>::infinity());
            probes[np++] = (std::numeric_limits<T>::infinity());
            probes[np++] = (std::numeric_limits<T>::lowest());
            probes[np++] = (std::numeric_limits<T>::max());
        }
        for (int pi = 0; pi < np; ++pi) {
            T x = probes[pi];
            bool pred = op == 0 ? (x > e) : op == 1 ? (x >= e) : op == 2 ? (x < e) : (x <= e);
            bool exp = (a <= x && x <= b) && pred;
            bool got = !r.empty() && r.first() <= x && x <= r.last();
            if (exp != got)
                return out(std::string("membership of ") + show(x) + " expected " + (exp ? "in" : "out") + " got " +
                           (got ? "in" : "out") + " (result " + (r.empty() ? std::string("empty") : "[" + show(r.first()) + "," + show(r.last()) + "]") + ")");
        }
        return std::nullopt;
    }
    case 4: {  // A & B
        Iv<W> exp;
        W lo = std::max(wa, wc), hi = std::min(wb, wd);
        if (lo <= hi)
            exp = std::make_pair(lo, hi);
        return out(cmp_range<T, W>(A & B, exp));
    }
    case 5: {  // A | B convex union
        Iv<W> exp = std::make_pair(std::min(wa, wc), std::max(wb, wd));
        return out(cmp_range<T, W>(A | B, exp));
    }
    case 6: {  // A & e
        Iv<W> exp;
        if (wa <= we && we <= wb)
            exp = std::make_pair(we, we);
        return out(cmp_range<T, W>(A & e, exp));
    }
    case 7: {  // A | e
        Iv<W> exp = std::make_pair(std::min(wa, we), std::max(wb, we));
        return out(cmp_range<T, W>(A | e, exp));
    }
    case 8:     // A + B
    case 9:     // A - B
    case 10: {  // A * B
        if constexpr (FP) {
            // reference: every pointwise result of sampled members lies inside, and both ends are attained by a
            // corner pair (rounding is monotone, so the hull of rounded pointwise results is spanned by corners).
            T xs[] = {a, b, (T)(a / 2 + b / 2), e};
            T ys[] = {c, d, (T)(c / 2 + d / 2)};
            auto f = [&](T x, T y) -> T { return op == 8 ? x + y : op == 9 ? x - y : x * y; };
            T corners[] = {f(a, c), f(a, d), f(b, c), f(b, d)};
            for (T v : corners)
                if (std::isnan(v))
                    throw Skip{};
            range_t<T> r = op == 8 ? A + B : op == 9 ? A - B : A * B;
            if (r.empty())
                return out(std::string("arithmetic result is empty"));
            for (T x : xs) {
                if (!(a <= x && x <= b))
                    continue;
                for (T y : ys) {
                    if (!(c <= y && y <= d))
                        continue;
                    T v = f(x, y);
                    if (std::isnan(v))
                        throw Skip{};
                    if (!(r.first() <= v && v <= r.last()))
                        return out("pointwise result " + show(x) + " op " + show(y) + " = " + show(v) + " outside [" +
                                   show(r.first()) + "," + show(r.last()) + "]");
                }
            }
            bool lo_att = false, hi_att = false;
            for (T v : corners) {
                lo_att |= v == r.first();
                hi_att |= v == r.last();
            }
            if (!lo_att || !hi_att)
                return out("not tight: end of [" + show(r.first()) + "," + show(r.last()) + "] attained by no corner");
            return std::nullopt;
        } else {
            W lo, hi;
            if (op == 8) {
                lo = wa + wc;
                hi = wb + wd;
            } else if (op == 9) {
                lo = wa - wd;
                hi = wb - wc;
            } else {
                W p[] = {wa * wc, wa * wd, wb * wc, wb * wd};
                lo = std::min(std::min(p[0], p[1]), std::min(p[2], p[3]));
                hi = std::max(std::max(p[0], p[1]), std::max(p[2], p[3]));
            }
            if (!fits<T>(lo) || !fits<T>(hi))
                throw Skip{};
            if (op == 10) {  // intermediate corner products must fit too, else the header computes in overflowed T
                W p[] = {wa * wc, wa * wd, wb * wc, wb * wd};
                for (W v : p)
                    if (!fits<T>(v))
                        throw Skip{};
            }
            Iv<W> exp = std::make_pair(lo, hi);
            range_t<T> r = op == 8 ? A + B : op == 9 ? A - B : A * B;
            return out(cmp_range<T, W>(r, exp));
        }
    }
    case 11:    // A + e
    case 12:    // A - e
    case 13: {  // A * e
        W lo, hi;
        if (op == 11) {
            lo = wa + we;
            hi = wb + we;
        } else if (op == 12) {
            lo = wa - we;
            hi = wb - we;
        } else {
            lo = std::min(wa * we, wb * we);
            hi = std::max(wa * we, wb * we);
        }
        if (!fits<T>(lo) || !fits<T>(hi))
            throw Skip{};
        if constexpr (FP) {
            // compare against double arithmetic (rounded), not long double
            T pa = op == 11 ? a + e : op == 12 ? a - e : a * e;
            T pb = op == 11 ? b + e : op == 12 ? b - e : b * e;
            if (std::isnan(pa) || std::isnan(pb))
                throw Skip{};  // inf-inf, inf*0: no pointwise result exists
            T l2 = std::min(pa, pb), h2 = std::max(pa, pb);
            lo = l2;
            hi = h2;
        }
        Iv<W> exp = std::make_pair(lo, hi);
        range_t<T> r = op == 11 ? A + e : op == 12 ? A - e : A * e;
        return out(cmp_range<T, W>(r, exp));
    }
    case 14: {  // contains
        bool exp = a <= e && e <= b;
        bool got = A.contains(e);
        bool got2 = (A && e);
        if (exp != got || exp != got2)
            return out(std::string("contains expected ") + (exp ? "true" : "false"));
        return std::nullopt;
    }
    case 15: {  // intersects
        bool exp = std::max(wa, wc) <= std::min(wb, wd);
        bool got = A.intersects(B), got2 = (A && B), got3 = B.intersects(A);
        if (exp != got || exp != got2 || exp != got3)
            return out(std::string("intersects expected ") + (exp ? "true" : "false"));
        return std::nullopt;
    }
    case 16: {  // ==
        bool exp = a == c && b == d;
        if ((A == B) != exp || (B == A) != exp)
            return out(std::string("== expected ") + (exp ? "true" : "false"));
        return std::nullopt;
    }
    case 17: {  // == e (singleton)
        bool exp = a == e && b == e;
        if ((A == e) != exp)
            return out(std::string("==e expected ") + (exp ? "true" : "false"));
        return std::nullopt;
    }
    case 18: {  // A < B : every member of A below every member of B
        bool exp = b < c;
        if ((A < B) != exp)
            return out(std::string("< expected ") + (exp ? "true" : "false"));
        return std::nullopt;
    }
    case 19: {  // A > B
        bool exp = a > d;
        if ((A > B) != exp)
            return out(std::string("> expected ") + (exp ? "true" : "false"));
        return std::nullopt;
    }
    case 20: {  // size
        if constexpr (FP) {
            throw Skip{};  // "number of discrete elements" is only meaningful for integral T
        } else {
            W n = wb - wa + 1;
            if (!fits<T>(wb - wa) || !fits<T>(n))  // the count itself must not overflow T's arithmetic
                if (sizeof(T) >= sizeof(int))
                    throw Skip{};
            if (n > (W)std::numeric_limits<uint32_t>::max())
                throw Skip{};
            if ((W)A.size() != n)
                return out("size expected " + std::to_string((long long)n) + " got " + std::to_string(A.size()));
            return std::nullopt;
        }
    }
    case 21: {  // results that are empty compare equal to each other and are of size 0
        range_t<T> r1 = A, r2 = B;
        r1 &= B;
        r2 &= A;
        bool exp_empty = !(std::max(wa, wc) <= std::min(wb, wd));
        if (r1.empty() != exp_empty || r2.empty() != exp_empty)
            return out(std::string("emptiness of intersection expected ") + (exp_empty ? "true" : "false"));
        if (!(r1 == r2))
            return out(std::string("A&B != B&A"));
        if constexpr (!FP)
            if (exp_empty && r1.size() != 0)
                return out(std::string("empty size != 0"));
        if (exp_empty && (r1.contains(e) || (r1 && A)) && false)
            return out(std::string("empty contains"));
        return std::nullopt;
    }
    case 22: {  // the operand is the object itself: r op= r must equal r op= (a distinct object of equal value)
        const range_t<T> O = A;
        auto same = [](const range_t<T>& r, const range_t<T>& q) {
            return (r.empty() && q.empty()) || (!r.empty() && !q.empty() && r.first() == q.first() && r.last() == q.last());
        };
        W p[] = {wa * wa, wa * wb, wb * wb};
        bool add_ok = fits<T>(wa + wa) && fits<T>(wb + wb), sub_ok = fits<T>(wa - wb) && fits<T>(wb - wa),
             mul_ok = fits<T>(p[0]) && fits<T>(p[1]) && fits<T>(p[2]);
        if constexpr (FP) {
            if (std::isnan(a - b) || std::isnan(a * b) || std::isnan(a + a) || std::isnan(b + b))
                throw Skip{};
        }
        if (!add_ok && !sub_ok && !mul_ok && sizeof(T) >= sizeof(int))
            throw Skip{};
        range_t<T> r, q;
        if (add_ok || sizeof(T) < sizeof(int)) {
            r = A, q = A;
            r += r;
            q += O;
            if (!same(r, q))
                return out("r += r gives [" + show(r.first()) + "," + show(r.last()) + "], r += copy gives [" + show(q.first()) + "," + show(q.last()) + "]");
        }
        if (sub_ok || sizeof(T) < sizeof(int)) {
            r = A, q = A;
            r -= r;
            q -= O;
            if (!same(r, q))
                return out("r -= r gives [" + show(r.first()) + "," + show(r.last()) + "], r -= copy gives [" + show(q.first()) + "," + show(q.last()) + "]");
        }
        if (mul_ok || sizeof(T) < sizeof(int)) {
            r = A, q = A;
            r *= r;
            q *= O;
            if (!same(r, q))
                return out("r *= r gives [" + show(r.first()) + "," + show(r.last()) + "], r *= copy gives [" + show(q.first()) + "," + show(q.last()) + "]");
        }
        r = A, q = A;
        r &= r;
        q &= O;
        if (!same(r, q) || !same(r, A))
            return out(std::string("r &= r differs from r"));
        r = A, q = A;
        r |= r;
        q |= O;
        if (!same(r, q) || !same(r, A))
            return out(std::string("r |= r differs from r"));
        r = A;
        if (!(r == r) || !r.intersects(r) || (r < r) || (r > r))
            return out(std::string("r == r / r intersects r / !(r < r) fails"));
        return std::nullopt;
    }
    case 23:    // the element operand is r.first() handed over directly: must equal handing over a copy of the value
    case 24: {  // ... r.last()
        auto same = [](const range_t<T>& r, const range_t<T>& q) {
            return (r.empty() && q.empty()) || (!r.empty() && !q.empty() && r.first() == q.first() && r.last() == q.last());
        };
        const T v = op == 23 ? a : b;
        const W wv = v;
        auto show_r = [](const range_t<T>& r) { return r.empty() ? std::string("empty") : "[" + show(r.first()) + "," + show(r.last()) + "]"; };
        const bool small = sizeof(T) < sizeof(int);
        for (int k = 0; k < 9; ++k) {
            if constexpr (FP) {
                if ((k == 0 && (std::isnan(a + v) || std::isnan(b + v))) || (k == 1 && (std::isnan(a - v) || std::isnan(b - v))) ||
                    (k == 2 && (std::isnan(a * v) || std::isnan(b * v))))
                    continue;
            } else {
                if (!small && ((k == 0 && !(fits<T>(wa + wv) && fits<T>(wb + wv))) || (k == 1 && !(fits<T>(wa - wv) && fits<T>(wb - wv))) ||
                               (k == 2 && !(fits<T>(wa * wv) && fits<T>(wb * wv)))))
                    continue;
            }
            range_t<T> r = A, q = A;
            const char* name = "";
            switch (k) {
            case 0: name = "+="; op == 23 ? r += r.first() : r += r.last(); q += v; break;
            case 1: name = "-="; op == 23 ? r -= r.first() : r -= r.last(); q -= v; break;
            case 2: name = "*="; op == 23 ? r *= r.first() : r *= r.last(); q *= v; break;
            case 3: name = "|="; op == 23 ? r |= r.first() : r |= r.last(); q |= v; break;
            case 4: name = "&="; op == 23 ? r &= r.first() : r &= r.last(); q &= v; break;
            case 5: name = "gt"; op == 23 ? r.gt(r.first()) : r.gt(r.last()); q.gt(v); break;
            case 6: name = "geq"; op == 23 ? r.geq(r.first()) : r.geq(r.last()); q.geq(v); break;
            case 7: name = "lt"; op == 23 ? r.lt(r.first()) : r.lt(r.last()); q.lt(v); break;
            case 8: name = "leq"; op == 23 ? r.leq(r.first()) : r.leq(r.last()); q.leq(v); break;
            }
            if (!same(r, q))
                return out(std::string("r ") + name + (op == 23 ? " r.first()" : " r.last()") + " gives " + show_r(r) + ", with a copy of the value " + show_r(q));
        }
        return std::nullopt;
    }
    }
    return std::nullopt;
}

// ---------------------------------------------------------------------------
struct Stats
{
    std::atomic<uint64_t> evals{0}, skipped{0}, nontrivial{0};
    std::mutex m;
    std::vector<std::string> violations;  // distinct descriptions (capped)
    std::vector<std::string> samples;
    std::set<std::string> viol_keys;  // op:type
    uint64_t per_op[NOPS] = {};
};
static Stats S;

static std::atomic<uint64_t> viol_count{0};
static void record_violation(const std::string& type, int op, const std::string& desc, const std::string& replay_line)
{
    if (++viol_count > 200)
        return;
    std::lock_guard<std::mutex> g(S.m);
    std::string key = type + ":" + OPS[op];
    if (S.viol_keys.insert(key).second || S.violations.size() < 20)
        S.violations.push_back(key + "\t" + replay_line + "\t" + desc);
}

template <typename T>
static const char* tname()
{
    if constexpr (std::is_same_v<T, int8_t>)
        return "int8";
    else if constexpr (std::is_same_v<T, int32_t>)
        return "int32";
    else
        return "double";
}

template <typename T>
static std::string replay_line(int op, T a, T b, T c, T d, T e)
{
    return std::string(tname<T>()) + " " + OPS[op] + " " + show(a) + " " + show(b) + " " + show(c) + " " + show(d) + " " +
           show(e);
}

// returns true if held or skipped
template <typename T>
static bool run_case(int op, T a, T b, T c, T d, T e, uint64_t& evals, uint64_t& skipped)
{
    try {
        auto r = check_case<T>(op, a, b, c, d, e);
        ++evals;
        if (r) {
            record_violation(tname<T>(), op, *r, replay_line(op, a, b, c, d, e));
            return false;
        }
    } catch (Skip&) {
        ++skipped;
    }
    return true;
}

// exhaustive int8: unary-with-element ops over all (a<=b, e); binary ops over all (a<=b, c<=d)
static void exhaustive_int8(int nthreads, bool full)
{
    std::vector<std::thread> th;
    std::atomic<int> next_a{-128};
    for (int t = 0; t < nthreads; ++t)
        th.emplace_back([&] {
            uint64_t evals = 0, skipped = 0, nontriv = 0;
            for (;;) {
                int a = next_a++;
                if (a > 127)
                    break;
                for (int b = a; b <= 127; ++b) {
                    // element ops
                    for (int e = -128; e <= 127; ++e) {
                        static const int eops[] = {0, 1, 2, 3, 6, 7, 11, 12, 13, 14, 17};
                        for (int op : eops)
                            run_case<int8_t>(op, a, b, a, b, e, evals, skipped);
                        nontriv += (a < b);
                    }
                    run_case<int8_t>(20, a, b, a, b, 0, evals, skipped);
                    for (int op = 22; op <= 24; ++op)
                        run_case<int8_t>(op, a, b, a, b, 0, evals, skipped);
                    // binary ops: full = all (c,d); otherwise stride through c,d with boundary values always included
                    for (int c = -128; c <= 127; ++c) {
                        if (!full && !(c <= -126 || c >= 126 || (c >= -3 && c <= 3) || c == a || c == b || c == a - 1 ||
                                       c == b + 1 || (c & 7) == (a & 7)))
                            continue;
                        for (int d = c; d <= 127; ++d) {
                            if (!full && !(d <= -126 || d >= 126 || (d >= -3 && d <= 3) || d == a || d == b ||
                                           d == a - 1 || d == b + 1 || d == c || (d & 7) == (b & 7)))
                                continue;
                            static const int bops[] = {4, 5, 8, 9, 10, 15, 16, 18, 19, 21};
                            for (int op : bops)
                                run_case<int8_t>(op, a, b, c, d, c, evals, skipped);
                            nontriv += (a < b && c < d);
                        }
                    }
                }
            }
            S.evals += evals;
            S.skipped += skipped;
            S.nontrivial += nontriv;
        });
    for (auto& t : th)
        t.join();
}

// brute-force pointwise reference for + - * on small magnitudes: validates the corner formula used above
static void bruteforce_small()
{
    uint64_t evals = 0;
    for (int a = -9; a <= 9; ++a)
        for (int b = a; b <= 9; ++b)
            for (int c = -9; c <= 9; ++c)
                for (int d = c; d <= 9; ++d)
                    for (int op = 8; op <= 10; ++op) {
                        int lo = INT32_MAX, hi = INT32_MIN;
                        for (int x = a; x <= b; ++x)
                            for (int y = c; y <= d; ++y) {
                                int v = op == 8 ? x + y : op == 9 ? x - y : x * y;
                                lo = std::min(lo, v);
                                hi = std::max(hi, v);
                            }
                        range_t<int8_t> A((int8_t)a, (int8_t)b), B((int8_t)c, (int8_t)d);
                        auto r = op == 8 ? A + B : op == 9 ? A - B : A * B;
                        ++evals;
                        if (r.empty() || r.first() != lo || r.last() != hi)
                            record_violation("int8", op,
                                             describe<int8_t>(OPS[op], a, b, c, d, 0,
                                                              "pointwise hull [" + std::to_string(lo) + "," + std::to_string(hi) +
                                                                  "] got [" + show(r.first()) + "," + show(r.last()) + "]"),
                                             replay_line<int8_t>(op, a, b, c, d, 0));
                    }
    S.evals += evals;
    S.nontrivial += evals;
}

// ---------------------------------------------------------------------------
// rapidcheck generators: boundary-biased
template <typename T>
static rc::Gen<T> genElem()
{
    if constexpr (std::is_floating_point_v<T>) {
        using L = std::numeric_limits<T>;
        auto special = rc::gen::element<T>(L::infinity(), -L::infinity(), L::lowest(), L::max(), (T)0.0, (T)-0.0,
                                           L::denorm_min(), -L::denorm_min(), L::min(), L::epsilon(), (T)1, (T)-1,
                                           std::nextafter(L::max(), (T)0), std::nextafter(L::lowest(), (T)0), (T)0.5,
                                           (T)1e308, (T)-1e308, (T)3, (T)-7);
        auto small = rc::gen::map(rc::gen::resize(1000, rc::gen::inRange<int>(-1000, 1001)), [](int v) { return (T)v / 8; });
        auto bits = rc::gen::suchThat(rc::gen::map(rc::gen::arbitrary<uint64_t>(),
                                                   [](uint64_t u) {
                                                       double dd;
                                                       memcpy(&dd, &u, 8);
                                                       return (T)dd;
                                                   }),
                                      [](T v) { return !std::isnan(v); });
        auto nb = rc::gen::mapcat(special, [](T s) {
            return rc::gen::element(T(s), T(std::isinf(s) ? s : std::nextafter(s, std::numeric_limits<T>::infinity())),
                                       T(std::isinf(s) ? s : std::nextafter(s, -std::numeric_limits<T>::infinity())));
        });
        return rc::gen::weightedOneOf<T>({{3, nb}, {4, small}, {2, bits}});
    } else {
        using L = std::numeric_limits<T>;
        auto edge = rc::gen::map(rc::gen::resize(100, rc::gen::inRange<int>(0, 9)),
                                 [](int k) -> T { return k < 5 ? (T)(L::min() + k) : (T)(L::max() - (k - 5)); });
        auto small = rc::gen::map(rc::gen::resize(100, rc::gen::inRange<int>(-40, 41)), [](int v) { return (T)v; });
        auto mid = rc::gen::map(rc::gen::resize(100000, rc::gen::inRange<int>(-50000, 50001)), [](int v) { return (T)v; });
        auto any = rc::gen::arbitrary<T>();
        return rc::gen::weightedOneOf<T>({{3, edge}, {4, small}, {2, mid}, {2, any}});
    }
}

template <typename T>
static bool rc_run(const std::string& label)
{
    std::set<std::string> distinct;
    uint64_t evals = 0, skipped = 0;
    bool ok = rc::check(label, [&] {
        int op = *rc::gen::resize(100, rc::gen::inRange<int>(0, NOPS));
        T a = *genElem<T>(), b = *genElem<T>(), c = *genElem<T>(), d = *genElem<T>(), e = *genElem<T>();
        if (b < a)
            std::swap(a, b);
        if (d < c)
            std::swap(c, d);
        uint64_t sk0 = skipped;
        bool held = run_case<T>(op, a, b, c, d, e, evals, skipped);
        if (skipped == sk0) {
            ++S.per_op[op];
            if (a < b || c < d) {
                std::string k = replay_line<T>(op, a, b, c, d, e);
                if (distinct.size() < 5000000)
                    distinct.insert(k);
                if (S.samples.size() < 12 && (evals % 997) == 1)
                    S.samples.push_back(k);
            }
        }
        RC_ASSERT(held);
    });
    S.evals += evals;
    S.skipped += skipped;
    S.nontrivial += distinct.size();
    return ok;
}

static int replay(const std::string& path)
{
    std::ifstream in(path);
    std::string type, opn, sa, sb, sc, sd, se;
    int bad = 0, n = 0;
    while (in >> type >> opn >> sa >> sb >> sc >> sd >> se) {
        int op = -1;
        for (int i = 0; i < NOPS; ++i)
            if (opn == OPS[i])
                op = i;
        if (op < 0) {
            fprintf(stderr, "unknown op %s\n", opn.c_str());
            return 2;
        }
        ++n;
        uint64_t ev = 0, sk = 0;
        bool held = true;
        if (type == "int8")
            held = run_case<int8_t>(op, (int8_t)atoll(sa.c_str()), (int8_t)atoll(sb.c_str()), (int8_t)atoll(sc.c_str()),
                                    (int8_t)atoll(sd.c_str()), (int8_t)atoll(se.c_str()), ev, sk);
        else if (type == "int32")
            held = run_case<int32_t>(op, (int32_t)atoll(sa.c_str()), (int32_t)atoll(sb.c_str()), (int32_t)atoll(sc.c_str()),
                                     (int32_t)atoll(sd.c_str()), (int32_t)atoll(se.c_str()), ev, sk);
        else
            held = run_case<double>(op, strtod(sa.c_str(), nullptr), strtod(sb.c_str(), nullptr), strtod(sc.c_str(), nullptr),
                                    strtod(sd.c_str(), nullptr), strtod(se.c_str(), nullptr), ev, sk);
        if (!held)
            ++bad;
        S.evals += ev;
        S.skipped += sk;
    }
    printf("replayed %d cases, %d violate\n", n, bad);
    for (auto& v : S.violations)
        printf("FAIL\t%s\n", v.c_str());
    return bad ? 1 : 0;
}

static std::string jesc(const std::string& s)
{
    std::string o;
    for (char ch : s) {
        if (ch == '"' || ch == '\\') {
            o += '\\';
            o += ch;
        } else if (ch == '\n')
            o += "\\n";
        else if (ch == '\t')
            o += "\\t";
        else
            o += ch;
    }
    return o;
}

int main(int argc, char** argv)
{
    std::string mode = argc > 1 ? argv[1] : "quick";
    if (mode == "--replay")
        return replay(argv[2]);
    bool thorough = mode == "thorough";
    std::string outpath = argc > 2 ? argv[2] : "";
    // 1. exhaustive int8 (quick: strided binary-operand space; thorough: complete)
    exhaustive_int8(16, thorough);
    bruteforce_small();
    uint64_t exh_evals = S.evals, exh_nt = S.nontrivial;
    // 2. rapidcheck (RC_PARAMS set by the driver)
    bool ok32 = rc_run<int32_t>("C18 int32_t");
    bool okd = rc_run<double>("C18 double");
    (void)ok32;
    (void)okd;
    // results as JSON on stdout/outpath
    std::ostringstream js;
    js << "{\"evaluations\":" << S.evals.load() << ",\"skipped_outside_statement\":" << S.skipped.load()
       << ",\"distinct_nontrivial\":" << S.nontrivial.load() << ",\"exhaustive_int8_evaluations\":" << exh_evals
       << ",\"exhaustive_int8_nontrivial\":" << exh_nt << ",\"int8_binary_space_complete\":" << (thorough ? "true" : "false")
       << ",\"per_op_random\":{";
    for (int i = 0; i < NOPS; ++i)
        js << (i ? "," : "") << "\"" << OPS[i] << "\":" << S.per_op[i];
    js << "},\"samples\":[";
    for (size_t i = 0; i < S.samples.size(); ++i)
        js << (i ? "," : "") << "\"" << jesc(S.samples[i]) << "\"";
    js << "],\"violation_count\":" << viol_count.load() << ",\"violations\":[";
    for (size_t i = 0; i < S.violations.size(); ++i)
        js << (i ? "," : "") << "\"" << jesc(S.violations[i]) << "\"";
    js << "]}";
    if (!outpath.empty()) {
        std::ofstream o(outpath);
        o << js.str() << "\n";
    } else
        printf("%s\n", js.str().c_str());
    return S.violations.empty() ? 0 : 1;
}
