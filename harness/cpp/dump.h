// Canonical dump of libutap objects + execution of oracle-server requests.
// Only public members/accessors of libutap are used (see DESIGN.md 2.2).
#pragma once
#include "utap/DocumentBuilder.hpp"
#include "utap/ExpressionBuilder.hpp"
#include "utap/builder.h"
#include "utap/document.h"
#include "utap/featurechecker.h"
#include "utap/prettyprinter.h"
#include "utap/property.h"
#include "utap/typechecker.h"
#include "utap/utap.h"
#include "utap/xmlwriter.h"

#include <cxxabi.h>
#include <fcntl.h>
#include <unistd.h>

#include <cerrno>
#include <cstdio>
#include <cstdlib>
#include <cstring>
#include <fstream>
#include <functional>
#include <map>
#include <set>
#include <sstream>
#include <string>
#include <typeinfo>
#include <vector>

#include "libparser.h"  // UTAP::tracker (exported global)
int utap_lex_destroy();

using namespace UTAP;
using namespace UTAP::Constants;

// ------------------------------------------------------------------ JSON
struct J
{
    std::string s;
    std::vector<bool> first;  // per open container
    bool after_key = false;
    void sep()
    {
        if (after_key) {
            after_key = false;
            return;
        }
        if (!first.empty()) {
            if (!first.back())
                s += ',';
            first.back() = false;
        }
    }
    std::vector<char> kinds;
    J& obj()
    {
        sep();
        s += '{';
        first.push_back(true);
        kinds.push_back('}');
        return *this;
    }
    J& arr()
    {
        sep();
        s += '[';
        first.push_back(true);
        kinds.push_back(']');
        return *this;
    }
    J& end()
    {
        char c = kinds.back();
        kinds.pop_back();
        first.pop_back();
        s += c;
        return *this;
    }
    J& key(const std::string& k)
    {
        sep();
        quote(k);
        s += ':';
        after_key = true;
        return *this;
    }
    void quote(const std::string& v)
    {
        s += '"';
        for (unsigned char ch : v) {
            if (ch == '"' || ch == '\\') {
                s += '\\';
                s += (char)ch;
            } else if (ch < 0x20 || ch >= 0x7f) {
                char b[8];
                snprintf(b, sizeof b, "\\u%04x", ch);
                s += b;
            } else
                s += (char)ch;
        }
        s += '"';
    }
    J& str(const std::string& v)
    {
        sep();
        quote(v);
        return *this;
    }
    J& num(long long v)
    {
        sep();
        s += std::to_string(v);
        return *this;
    }
    J& dbl(double v)
    {
        sep();
        char b[64];
        snprintf(b, sizeof b, "%.6f", v);
        s += b;
        return *this;
    }
    J& boolean(bool v)
    {
        sep();
        s += v ? "true" : "false";
        return *this;
    }
    J& null()
    {
        sep();
        s += "null";
        return *this;
    }
    J& raw(const std::string& v)
    {
        sep();
        s += v;
        return *this;
    }
};
struct JW : J
{
    JW& o()
    {
        J::obj();
        return *this;
    }
    JW& a()
    {
        J::arr();
        return *this;
    }
    JW& e()
    {
        J::end();
        return *this;
    }
    JW& k(const std::string& key)
    {
        J::key(key);
        return *this;
    }
};

// ------------------------------------------------------------------ kinds
inline const char* kind_name(int k)
{
    static const std::map<int, const char*> names = {
#include "kind_names.inc"
    };
    auto it = names.find(k);
    if (it == names.end())
        return "?KIND";
    return it->second;
}

inline std::string demangle(const char* n)
{
    int st = 0;
    char* d = abi::__cxa_demangle(n, nullptr, nullptr, &st);
    std::string r = (st == 0 && d) ? d : n;
    free(d);
    return r;
}

// ------------------------------------------------------------------ dumper
struct Dumper
{
    Document& doc;
    std::map<symbol_t, std::string> ids;
    std::map<std::string, int> used;
    int unknown_count = 0;
    int depth_guard = 0;
    explicit Dumper(Document& d): doc{d} {}

    void reg_frame(const frame_t& f, const std::string& path)
    {
        if (f == frame_t())
            return;
        for (uint32_t i = 0; i < f.get_size(); ++i) {
            symbol_t s = f[i];
            if (s == symbol_t())
                continue;
            if (!ids.count(s)) {
                std::string id = path + "/" + s.get_name();
                int n = ++used[id];
                if (n > 1)
                    id += "#" + std::to_string(n);
                ids[s] = id;
            }
        }
    }
    struct BlockWalker : AbstractStatementVisitor
    {
        Dumper& d;
        std::string path;
        int n = 0;
        BlockWalker(Dumper& d, std::string p): d{d}, path{std::move(p)} {}
        int32_t visitStatement(Statement*) override { return 0; }
        int32_t visitBlockStatement(BlockStatement* b) override
        {
            std::string saved = path;
            path = path + ".B" + std::to_string(n++);
            d.reg_frame(b->get_frame(), path);
            int saved_n = n;
            n = 0;
            for (auto& s : *b)
                if (s)
                    s->accept(this);
            n = saved_n;
            path = saved;
            return 0;
        }
        int32_t visitSwitchStatement(SwitchStatement* b) override { return visitBlockStatement(b); }
        int32_t visitCaseStatement(CaseStatement* b) override { return visitBlockStatement(b); }
        int32_t visitDefaultStatement(DefaultStatement* b) override { return visitBlockStatement(b); }
        int32_t visitIterationStatement(IterationStatement* it) override
        {
            std::string saved = path;
            path = path + ".I" + std::to_string(n++);
            d.reg_frame(it->get_frame(), path);
            int saved_n = n;
            n = 0;
            if (it->stat)
                it->stat->accept(this);
            n = saved_n;
            path = saved;
            return 0;
        }
        int32_t visitForStatement(ForStatement* s) override { return s->stat ? s->stat->accept(this) : 0; }
        int32_t visitWhileStatement(WhileStatement* s) override { return s->stat ? s->stat->accept(this) : 0; }
        int32_t visitDoWhileStatement(DoWhileStatement* s) override { return s->stat ? s->stat->accept(this) : 0; }
        int32_t visitIfStatement(IfStatement* s) override
        {
            if (s->trueCase)
                s->trueCase->accept(this);
            if (s->falseCase)
                s->falseCase->accept(this);
            return 0;
        }
    };
    void reg_function(function_t& f, const std::string& path)
    {
        std::string fp = path + ".F(" + f.uid.get_name() + ")";
        if (f.body) {
            reg_frame(f.body->get_frame(), fp);
            BlockWalker w{*this, fp};
            for (auto& s : *f.body)
                if (s)
                    s->accept(&w);
        }
    }
    void reg_decls(declarations_t& d, const std::string& path)
    {
        reg_frame(d.frame, path);
        for (auto& f : d.functions)
            reg_function(f, path);
        int gi = 0;
        for (auto& g : d.ganttChart) {
            reg_frame(g.parameters, path + ".G" + std::to_string(gi));
            int mi = 0;
            for (auto& m : g.mapping)
                reg_frame(m.parameters, path + ".G" + std::to_string(gi) + ".M" + std::to_string(mi++));
            ++gi;
        }
    }
    void reg_template(template_t& t, const std::string& tp)
    {
        reg_frame(t.parameters, tp + ".p");
        reg_decls(t, tp);
        for (auto& e : t.edges)
            reg_frame(e.select, tp + ".E" + std::to_string(e.nr) + ".sel");
        reg_frame(t.template_set, tp + ".set");
    }
    void build_ids()
    {
        reg_decls(doc.get_globals(), "g");
        for (auto& t : doc.get_templates())
            reg_template(t, "T(" + t.uid.get_name() + ")");
        for (auto* t : doc.get_dynamic_templates())
            reg_template(*t, "D(" + t->uid.get_name() + ")");
        for (auto& p : doc.get_processes())
            reg_frame(p.parameters, "P(" + p.uid.get_name() + ").p");
        // instances reachable through the global frame
        frame_t gf = doc.get_globals().frame;
        for (uint32_t i = 0; i < gf.get_size(); ++i) {
            symbol_t s = gf[i];
            kind_t k = s.get_type().get_kind();
            if ((k == INSTANCE || k == LSC_INSTANCE) && s.get_data() != nullptr) {
                auto* inst = static_cast<instance_t*>(s.get_data());
                reg_frame(inst->parameters, "I(" + s.get_name() + ").p");
            }
        }
    }
    std::string sym_id(const symbol_t& s)
    {
        if (s == symbol_t())
            return "@null";
        auto it = ids.find(s);
        if (it != ids.end())
            return "@" + it->second;
        // a binder of a discarded quantifier frame (or a symbol of a frame we cannot reach): alpha-normal numbering
        std::string id = "?" + std::to_string(unknown_count++) + "/" + s.get_name();
        ids[s] = id;
        return "@" + id;
    }

    // ---- types
    std::string type_str(const type_t& t, int depth = 0)
    {
        if (t == type_t())
            return "<null>";
        if (depth > 30)
            return "<deep>";
        kind_t k = t.get_kind();
        std::string r = kind_name(k);
        if (k == PROCESS || k == INSTANCE || k == LSC_INSTANCE || k == PROCESS_SET) {
            // shallow: labels only (children are whole frames of variables)
            r += "{";
            for (size_t i = 0; i < t.size(); ++i) {
                if (i)
                    r += ",";
                r += t.get_label(i);
            }
            return r + "}";
        }
        expression_t e = t.get_expression();
        if (!e.empty())
            r += "<" + expr_str(e) + ">";
        if (t.size() > 0) {
            r += "(";
            for (size_t i = 0; i < t.size(); ++i) {
                if (i)
                    r += ",";
                const std::string& l = t.get_label(i);
                if (!l.empty())
                    r += l + ":";
                r += type_str(t.get(i), depth + 1);
            }
            r += ")";
        }
        return r;
    }

    // ---- expressions
    static std::string quote(std::string_view v)
    {
        std::string s = "\"";
        for (unsigned char ch : v) {
            if (ch == '"' || ch == '\\') {
                s += '\\';
                s += (char)ch;
            } else if (ch < 0x20 || ch >= 0x7f) {
                char b[8];
                snprintf(b, sizeof b, "\\x%02x", ch);
                s += b;
            } else
                s += (char)ch;
        }
        return s + "\"";
    }
    std::string expr_str(const expression_t& e, int depth = 0)
    {
        if (e.empty())
            return "()";
        if (depth > 20000)
            return "(<deep>)";
        kind_t k = e.get_kind();
        std::string r = "(";
        r += kind_name(k);
        switch (k) {
        case CONSTANT: {
            type_t t = e.get_type();
            try {
                if (t.is_string())
                    r += " s:" + quote(e.get_string_value());
                else if (t.is(DOUBLE)) {
                    char b[64];
                    snprintf(b, sizeof b, " d:%a", e.get_double_value());
                    r += b;
                } else if (t.is_integer())
                    r += " " + std::to_string(e.get_value());
                else if (t.isBoolean())
                    r += std::string(" b:") + (e.get_value() ? "1" : "0");
                else
                    r += " ?:" + std::to_string(e.get_value());
            } catch (std::bad_variant_access&) {
                r += " <bad-variant:" + std::string(kind_name(t.get_kind())) + ">";
            }
            break;
        }
        case VAR_INDEX: r += " " + std::to_string(e.get_value()); break;
        case IDENTIFIER: r += " " + sym_id(e.get_symbol()); break;
        case DOT: {
            int32_t idx = e.get_index();
            r += " ." + std::to_string(idx);
            break;
        }
        case SYNC: {
            auto sy = e.get_sync();
            r += sy == SYNC_QUE ? " ?" : sy == SYNC_BANG ? " !" : " csp";
            break;
        }
        default: break;
        }
        size_t n = e.get_size();
        for (size_t i = 0; i < n; ++i) {
            r += " ";
            r += expr_str(e.get(i), depth + 1);
        }
        r += ")";
        return r;
    }

    // ---- statements
    struct StatDumper : StatementVisitor
    {
        Dumper& d;
        std::string out;
        explicit StatDumper(Dumper& d): d{d} {}
        void sub(Statement* s)
        {
            if (s)
                s->accept(this);
            else
                out += "(NULL)";
        }
        int32_t visitEmptyStatement(EmptyStatement*) override
        {
            out += "(EMPTY)";
            return 0;
        }
        int32_t visitExprStatement(ExprStatement* s) override
        {
            out += "(EXPR " + d.expr_str(s->expr) + ")";
            return 0;
        }
        int32_t visitAssertStatement(AssertStatement* s) override
        {
            out += "(ASSERT " + d.expr_str(s->expr) + ")";
            return 0;
        }
        int32_t visitForStatement(ForStatement* s) override
        {
            out += "(FOR " + d.expr_str(s->init) + " " + d.expr_str(s->cond) + " " + d.expr_str(s->step) + " ";
            sub(s->stat.get());
            out += ")";
            return 0;
        }
        int32_t visitIterationStatement(IterationStatement* s) override
        {
            out += "(ITER " + d.sym_id(s->symbol) + ":" + d.type_str(s->symbol.get_type()) + " ";
            sub(s->stat.get());
            out += ")";
            return 0;
        }
        int32_t visitWhileStatement(WhileStatement* s) override
        {
            out += "(WHILE " + d.expr_str(s->cond) + " ";
            sub(s->stat.get());
            out += ")";
            return 0;
        }
        int32_t visitDoWhileStatement(DoWhileStatement* s) override
        {
            out += "(DO ";
            sub(s->stat.get());
            out += " " + d.expr_str(s->cond) + ")";
            return 0;
        }
        void block(const char* tag, BlockStatement* b)
        {
            out += std::string("(") + tag;
            for (auto& v : b->variables)
                out += " " + d.var_str(v);
            for (auto& s : *b) {
                out += " ";
                sub(s.get());
            }
            out += ")";
        }
        int32_t visitBlockStatement(BlockStatement* b) override
        {
            block("BLOCK", b);
            return 0;
        }
        int32_t visitSwitchStatement(SwitchStatement* b) override
        {
            out += "(SWITCH " + d.expr_str(b->cond) + " ";
            block("BODY", b);
            out += ")";
            return 0;
        }
        int32_t visitCaseStatement(CaseStatement* b) override
        {
            out += "(CASE " + d.expr_str(b->cond) + " ";
            block("BODY", b);
            out += ")";
            return 0;
        }
        int32_t visitDefaultStatement(DefaultStatement* b) override
        {
            block("DEFAULT", b);
            return 0;
        }
        int32_t visitIfStatement(IfStatement* s) override
        {
            out += "(IF " + d.expr_str(s->cond) + " ";
            sub(s->trueCase.get());
            if (s->falseCase) {
                out += " ";
                sub(s->falseCase.get());
            }
            out += ")";
            return 0;
        }
        int32_t visitBreakStatement(BreakStatement*) override
        {
            out += "(BREAK)";
            return 0;
        }
        int32_t visitContinueStatement(ContinueStatement*) override
        {
            out += "(CONTINUE)";
            return 0;
        }
        int32_t visitReturnStatement(ReturnStatement* s) override
        {
            out += "(RETURN " + d.expr_str(s->value) + ")";
            return 0;
        }
    };
    std::string var_str(const variable_t& v)
    {
        return "(VAR " + sym_id(v.uid) + ":" + type_str(v.uid.get_type()) + " " + expr_str(v.init) + ")";
    }

    // ---- document parts
    void dump_decls(JW& j, declarations_t& d)
    {
        j.o();
        j.k("symbols").a();
        for (uint32_t i = 0; i < d.frame.get_size(); ++i) {
            symbol_t s = d.frame[i];
            j.o();
            j.k("name").str(s.get_name());
            j.k("id").str(sym_id(s));
            kind_t k = s.get_type().get_kind();
            j.k("kind").str(kind_name(k));
            j.k("type").str(type_str(s.get_type()));
            j.e();
        }
        j.e();
        j.k("variables").a();
        for (auto& v : d.variables) {
            j.o();
            j.k("name").str(v.uid.get_name());
            j.k("id").str(sym_id(v.uid));
            j.k("type").str(type_str(v.uid.get_type()));
            j.k("init").str(expr_str(v.init));
            j.e();
        }
        j.e();
        j.k("functions").a();
        for (auto& f : d.functions) {
            j.o();
            j.k("name").str(f.uid.get_name());
            j.k("id").str(sym_id(f.uid));
            j.k("type").str(type_str(f.uid.get_type()));
            if (f.body) {
                j.k("params").a();
                frame_t bf = f.body->get_frame();
                for (uint32_t i = 0; i < bf.get_size(); ++i)
                    j.str(sym_id(bf[i]) + ":" + type_str(bf[i].get_type()));
                j.e();
                j.k("locals").a();
                for (auto& v : f.variables)
                    j.str(var_str(v));
                j.e();
                StatDumper sd{*this};
                sd.block("BODY", f.body.get());
                j.k("body").str(sd.out);
            } else
                j.k("body").null();
            j.e();
        }
        j.e();
        j.k("progress").a();
        for (auto& p : d.progress)
            j.str(expr_str(p.guard) + " " + expr_str(p.measure));
        j.e();
        j.k("gantt").num((long long)d.ganttChart.size());
        j.k("iodecl").num((long long)d.iodecl.size());
        j.e();
    }
    void dump_frame_syms(JW& j, const frame_t& f)
    {
        j.a();
        if (f != frame_t())
            for (uint32_t i = 0; i < f.get_size(); ++i) {
                j.o();
                j.k("name").str(f[i].get_name());
                j.k("id").str(sym_id(f[i]));
                j.k("type").str(type_str(f[i].get_type()));
                j.e();
            }
        j.e();
    }
    void dump_instance(JW& j, instance_t& inst)
    {
        j.k("name").str(inst.uid.get_name());
        j.k("uid_type").str(type_str(inst.uid.get_type()));
        j.k("template").str(inst.templ ? inst.templ->uid.get_name() : std::string("<null>"));
        j.k("unbound").num((long long)inst.unbound);
        j.k("arguments").num((long long)inst.arguments);
        j.k("parameters");
        dump_frame_syms(j, inst.parameters);
        j.k("mapping").a();
        // in parameter order (deterministic), then any key that is not a parameter
        std::set<symbol_t> seen;
        if (inst.parameters != frame_t())
            for (uint32_t i = 0; i < inst.parameters.get_size(); ++i) {
                auto it = inst.mapping.find(inst.parameters[i]);
                if (it != inst.mapping.end()) {
                    j.o();
                    j.k("param").str(inst.parameters[i].get_name());
                    j.k("index").num(i);
                    j.k("arg").str(expr_str(it->second));
                    j.e();
                    seen.insert(it->first);
                }
            }
        for (auto& kv : inst.mapping)
            if (!seen.count(kv.first)) {
                j.o();
                j.k("param").str(kv.first.get_name());
                j.k("index").num(-1);
                j.k("arg").str(expr_str(kv.second));
                j.e();
            }
        j.e();
    }
    static std::string loc_ref(location_t* l, branchpoint_t* b)
    {
        if (l && b)
            return "both:" + l->uid.get_name() + "+" + b->uid.get_name();
        if (l)
            return "L:" + l->uid.get_name();
        if (b)
            return "B:" + b->uid.get_name();
        return "none";
    }
    void dump_template(JW& j, template_t& t)
    {
        j.o();
        dump_instance(j, t);
        j.k("is_TA").boolean(t.is_TA);
        j.k("dynamic").boolean(t.dynamic);
        j.k("is_instantiated").boolean(t.is_instantiated);
        j.k("lsc_type").str(t.type);
        j.k("lsc_mode").str(t.mode);
        j.k("decls");
        dump_decls(j, t);
        j.k("locations").a();
        for (auto& l : t.locations) {
            j.o();
            j.k("name").str(l.uid.get_name());
            j.k("nr").num(l.nr);
            j.k("type").str(type_str(l.uid.get_type()));
            j.k("invariant").str(expr_str(l.invariant));
            j.k("exp_rate").str(expr_str(l.exp_rate));
            j.k("cost_rate").str(expr_str(l.cost_rate));
            j.e();
        }
        j.e();
        j.k("branchpoints").a();
        for (auto& b : t.branchpoints) {
            j.o();
            j.k("name").str(b.uid.get_name());
            j.k("nr").num(b.bpNr);
            j.e();
        }
        j.e();
        j.k("init").str(t.init == symbol_t() ? std::string("<none>") : t.init.get_name());
        j.k("edges").a();
        for (auto& e : t.edges) {
            j.o();
            j.k("nr").num(e.nr);
            j.k("control").boolean(e.control);
            j.k("actname").str(e.actname);
            j.k("src").str(loc_ref(e.src, e.srcb));
            j.k("dst").str(loc_ref(e.dst, e.dstb));
            j.k("select");
            dump_frame_syms(j, e.select);
            j.k("guard").str(expr_str(e.guard));
            j.k("sync").str(expr_str(e.sync));
            j.k("assign").str(expr_str(e.assign));
            j.k("prob").str(expr_str(e.prob));
            j.e();
        }
        j.e();
        j.k("lsc").o();
        j.k("instances").num((long long)t.instances.size());
        j.k("messages").num((long long)t.messages.size());
        j.k("updates").num((long long)t.updates.size());
        j.k("conditions").num((long long)t.conditions.size());
        j.e();
        j.e();
    }
    void dump_doc(JW& j)
    {
        j.o();
        j.k("globals");
        dump_decls(j, doc.get_globals());
        j.k("templates").a();
        for (auto& t : doc.get_templates())
            dump_template(j, t);
        j.e();
        j.k("dyn_templates").a();
        for (auto* t : doc.get_dynamic_templates())
            dump_template(j, *t);
        j.e();
        j.k("instances").a();
        {
            frame_t gf = doc.get_globals().frame;
            std::set<const void*> tmpl;
            for (auto& t : doc.get_templates())
                tmpl.insert(static_cast<instance_t*>(&t));
            for (auto* t : doc.get_dynamic_templates())
                tmpl.insert(static_cast<instance_t*>(t));
            for (uint32_t i = 0; i < gf.get_size(); ++i) {
                symbol_t s = gf[i];
                kind_t k = s.get_type().get_kind();
                if ((k == INSTANCE || k == LSC_INSTANCE) && s.get_data() != nullptr && !tmpl.count(s.get_data())) {
                    j.o();
                    dump_instance(j, *static_cast<instance_t*>(s.get_data()));
                    j.e();
                }
            }
        }
        j.e();
        j.k("processes").a();
        for (auto& p : doc.get_processes()) {
            j.o();
            dump_instance(j, p);
            j.k("priority").num(doc.get_proc_priority(p.uid.get_name().c_str()));
            j.e();
        }
        j.e();
        j.k("chan_priorities").a();
        for (auto& cp : doc.get_chan_priorities()) {
            std::string s = expr_str(cp.head);
            for (auto& en : cp.tail)
                s += std::string(" ") + en.first + " " + expr_str(en.second);
            j.str(s);
        }
        j.e();
        j.k("has_priorities").boolean(doc.has_priority_declaration());
        j.k("before_update").str(expr_str(doc.get_before_update()));
        j.k("after_update").str(expr_str(doc.get_after_update()));
        j.k("queries").a();
        for (auto& q : doc.get_queries()) {
            j.o();
            j.k("formula").str(q.formula);
            j.k("comment").str(q.comment);
            j.k("location").str(q.location);
            j.k("options").a();
            for (auto& o : q.options)
                j.str(o.name + "=" + o.value);
            j.e();
            j.k("expect_value").str(q.expectation.value);
            j.k("expect_type").num((int)q.expectation.value_type);
            j.k("expect_status").num((int)q.expectation.status);
            j.k("resources").a();
            for (auto& r : q.expectation.resources)
                j.str(r.name + "=" + r.value + (r.unit ? ":" + *r.unit : ""));
            j.e();
            j.e();
        }
        j.e();
        j.k("options").a();
        for (auto& o : doc.get_options())
            j.str(o.name + "=" + o.value);
        j.e();
        j.e();
    }

    // ---- C08 predicate
    std::vector<std::string> invariants(bool returned_normally_without_errors)
    {
        std::vector<std::string> bad;
        // an object whose uid is the null symbol is not "the user object of its own symbol" either; asking a null symbol
        // for its name or data would crash the predicate instead of reporting it
        auto nameof = [](const symbol_t& s) { return s == symbol_t() ? std::string("<no symbol>") : s.get_name(); };
        auto dataof = [](const symbol_t& s) -> const void* { return s == symbol_t() ? nullptr : s.get_data(); };
        auto chk_vars = [&](std::list<variable_t>& vars, const std::string& where) {
            for (auto& v : vars)
                if (dataof(v.uid) != &v)
                    bad.push_back("variable " + where + "/" + nameof(v.uid) + ": uid.get_data() != &variable");
        };
        std::function<void(Statement*, const std::string&)> walk_stat;
        struct BW : AbstractStatementVisitor
        {
            std::function<void(BlockStatement*)> fn;
            int32_t visitStatement(Statement*) override { return 0; }
            int32_t visitBlockStatement(BlockStatement* b) override
            {
                fn(b);
                for (auto& s : *b)
                    if (s)
                        s->accept(this);
                return 0;
            }
            int32_t visitSwitchStatement(SwitchStatement* b) override { return visitBlockStatement(b); }
            int32_t visitCaseStatement(CaseStatement* b) override { return visitBlockStatement(b); }
            int32_t visitDefaultStatement(DefaultStatement* b) override { return visitBlockStatement(b); }
            int32_t visitIterationStatement(IterationStatement* s) override { return s->stat ? s->stat->accept(this) : 0; }
            int32_t visitForStatement(ForStatement* s) override { return s->stat ? s->stat->accept(this) : 0; }
            int32_t visitWhileStatement(WhileStatement* s) override { return s->stat ? s->stat->accept(this) : 0; }
            int32_t visitDoWhileStatement(DoWhileStatement* s) override { return s->stat ? s->stat->accept(this) : 0; }
            int32_t visitIfStatement(IfStatement* s) override
            {
                if (s->trueCase)
                    s->trueCase->accept(this);
                if (s->falseCase)
                    s->falseCase->accept(this);
                return 0;
            }
        };
        auto chk_decls = [&](declarations_t& d, const std::string& where) {
            chk_vars(d.variables, where);
            for (auto& f : d.functions) {
                if (dataof(f.uid) != &f) {
                    bad.push_back("function " + where + "/" + nameof(f.uid) + ": uid.get_data() != &function");
                    continue;
                }
                chk_vars(f.variables, where + "/" + f.uid.get_name());
                if (f.body) {
                    BW bw;
                    bw.fn = [&](BlockStatement* b) { chk_vars(b->variables, where + "/" + f.uid.get_name() + "/block"); };
                    f.body->accept(&bw);
                }
            }
        };
        auto chk_instance = [&](instance_t& inst, const std::string& what, bool is_process) {
            const std::string nm = what + " " + nameof(inst.uid);
            if (dataof(inst.uid) != &inst)
                bad.push_back(nm + ": uid.get_data() != &object");
            if (inst.uid == symbol_t())
                return;
            size_t np = inst.parameters == frame_t() ? 0 : inst.parameters.get_size();
            if (inst.unbound > np)
                bad.push_back(nm + ": unbound " + std::to_string(inst.unbound) + " > parameters " + std::to_string(np));
            kind_t k = inst.uid.get_type().get_kind();
            // arity of the type == number of unbound parameters (for a process: PROCESS type lists variables, so
            // only PROCESS_SET / INSTANCE types carry the unbound parameters)
            if (k == INSTANCE || k == LSC_INSTANCE) {
                if (inst.uid.get_type().size() != inst.unbound)
                    bad.push_back(nm + ": type arity " + std::to_string(inst.uid.get_type().size()) + " != unbound " +
                                  std::to_string(inst.unbound));
            } else if (k == PROCESS_SET) {
                // create_process_set copies the unbound parameters of the instance type
                if (inst.uid.get_type().size() != inst.unbound)
                    bad.push_back(nm + ": process-set arity " + std::to_string(inst.uid.get_type().size()) + " != unbound " +
                                  std::to_string(inst.unbound));
            } else if (k == PROCESS) {
                if (inst.unbound != 0)
                    bad.push_back(nm + ": PROCESS type with unbound " + std::to_string(inst.unbound));
            }
            if (inst.unbound <= np) {
                if (inst.mapping.size() != np - inst.unbound)
                    bad.push_back(nm + ": mapping size " + std::to_string(inst.mapping.size()) + " != bound parameters " +
                                  std::to_string(np - inst.unbound));
                for (size_t i = 0; i < np; ++i) {
                    bool mapped = inst.mapping.count(inst.parameters[i]) > 0;
                    if (i < inst.unbound && mapped)
                        bad.push_back(nm + ": unbound parameter " + inst.parameters[i].get_name() + " is mapped");
                    if (i >= inst.unbound && !mapped)
                        bad.push_back(nm + ": bound parameter " + inst.parameters[i].get_name() + " is not mapped");
                }
            }
            (void)is_process;
        };
        auto chk_template = [&](template_t& t, const std::string& what) {
            const std::string nm = what + " " + nameof(t.uid);
            if (dataof(t.uid) != static_cast<instance_t*>(&t))
                bad.push_back(nm + ": uid.get_data() != &template");
            chk_instance(t, what, false);
            // chk_instance compared against &inst which is the instance_t subobject: same pointer, fine
            chk_decls(t, nm);
            int i = 0;
            for (auto& l : t.locations) {
                if (dataof(l.uid) != &l)
                    bad.push_back(nm + ": location " + nameof(l.uid) + ": uid.get_data() != &location");
                if (l.nr != i)
                    bad.push_back(nm + ": location #" + std::to_string(i) + " has nr " + std::to_string(l.nr));
                ++i;
            }
            i = 0;
            for (auto& b : t.branchpoints) {
                if (dataof(b.uid) != &b)
                    bad.push_back(nm + ": branchpoint " + nameof(b.uid) + ": uid.get_data() != &branchpoint");
                if (b.bpNr != i)
                    bad.push_back(nm + ": branchpoint #" + std::to_string(i) + " has nr " + std::to_string(b.bpNr));
                ++i;
            }
            auto own_loc = [&](location_t* p) {
                for (auto& l : t.locations)
                    if (&l == p)
                        return true;
                return false;
            };
            auto own_bp = [&](branchpoint_t* p) {
                for (auto& b : t.branchpoints)
                    if (&b == p)
                        return true;
                return false;
            };
            i = 0;
            for (auto& e : t.edges) {
                std::string en = nm + ": edge #" + std::to_string(i);
                if (e.nr != i)
                    bad.push_back(en + " has nr " + std::to_string(e.nr));
                if ((e.src != nullptr) + (e.srcb != nullptr) != 1)
                    bad.push_back(en + " does not have exactly one source");
                if ((e.dst != nullptr) + (e.dstb != nullptr) != 1)
                    bad.push_back(en + " does not have exactly one target");
                if (e.src && !own_loc(e.src))
                    bad.push_back(en + " source location is not of this template");
                if (e.dst && !own_loc(e.dst))
                    bad.push_back(en + " target location is not of this template");
                if (e.srcb && !own_bp(e.srcb))
                    bad.push_back(en + " source branchpoint is not of this template");
                if (e.dstb && !own_bp(e.dstb))
                    bad.push_back(en + " target branchpoint is not of this template");
                ++i;
            }
            if (returned_normally_without_errors && t.is_TA) {
                bool ok = false;
                if (t.init != symbol_t())
                    for (auto& l : t.locations)
                        if (l.uid == t.init)
                            ok = true;
                if (!ok)
                    bad.push_back(nm + ": no initial location among its own locations");
            }
        };
        chk_decls(doc.get_globals(), "global");
        for (auto& t : doc.get_templates())
            chk_template(t, "template");
        for (auto* t : doc.get_dynamic_templates())
            chk_template(*t, "dynamic template");
        for (auto& p : doc.get_processes())
            chk_instance(p, "process", true);
        {
            frame_t gf = doc.get_globals().frame;
            std::set<const void*> known;
            for (auto& t : doc.get_templates())
                known.insert(static_cast<instance_t*>(&t));
            for (auto* t : doc.get_dynamic_templates())
                known.insert(static_cast<instance_t*>(t));
            for (uint32_t i = 0; i < gf.get_size(); ++i) {
                symbol_t s = gf[i];
                kind_t k = s.get_type().get_kind();
                if ((k == INSTANCE || k == LSC_INSTANCE) && s.get_data() != nullptr && !known.count(s.get_data()))
                    chk_instance(*static_cast<instance_t*>(s.get_data()), "instance", false);
            }
        }
        return bad;
    }
};

// ------------------------------------------------------------------ diagnostics
inline void dump_diag(JW& j, const std::vector<UTAP::error_t>& v)
{
    j.a();
    for (auto& e : v) {
        j.o();
        j.k("msg").str(e.msg);
        j.k("ctx").str(e.context);
        j.k("path").str(e.start.path ? *e.start.path : std::string("<nullpath>"));
        j.k("epath").str(e.end.path ? *e.end.path : std::string("<nullpath>"));
        j.k("line").num(e.start.line);
        j.k("eline").num(e.end.line);
        j.k("pstart").num(e.position.start);
        j.k("pend").num(e.position.end);
        j.k("col").num((long long)e.position.start - (long long)e.start.position);
        j.k("ecol").num((long long)e.position.end - (long long)e.end.position);
        j.k("off").num((long long)e.start.offset + ((long long)e.position.start - (long long)e.start.position));
        j.k("eoff").num((long long)e.end.offset + ((long long)e.position.end - (long long)e.end.position));
        j.k("unknown").boolean(e.position.start == (uint32_t)position_t::unknown_pos);
        j.e();
    }
    j.e();
}

// ------------------------------------------------------------------ request execution
struct Step
{
    std::map<std::string, std::string> f;
    std::string get(const std::string& k, const std::string& d = "") const
    {
        auto it = f.find(k);
        return it == f.end() ? d : it->second;
    }
    bool has(const std::string& k) const { return f.count(k) > 0; }
};

inline std::vector<std::string> split_lines(const std::string& s, char sepc = '\n')
{
    std::vector<std::string> r;
    std::string cur;
    for (char c : s) {
        if (c == sepc) {
            r.push_back(cur);
            cur.clear();
        } else
            cur += c;
    }
    if (!cur.empty())
        r.push_back(cur);
    return r;
}

template <class F>
static void guarded(JW& j, F&& fn)
{
    // runs fn, records exception class
    try {
        fn();
        j.k("exc").null();
    } catch (std::exception& e) {
        j.k("exc").o();
        j.k("class").str(demangle(typeid(e).name()));
        j.k("what").str(e.what());
        j.k("std").boolean(true);
        j.e();
    } catch (...) {
        j.k("exc").o();
        std::type_info* t = abi::__cxa_current_exception_type();
        j.k("class").str(t ? demangle(t->name()) : std::string("unknown"));
        j.k("what").str("");
        j.k("std").boolean(false);
        j.e();
    }
}

// An ExpressionBuilder that allows P.x references (queries' scope) for expression-level parses
struct ScopedExprBuilder : ExpressionBuilder
{
    bool procrefs;
    ScopedExprBuilder(Document& d, bool p): ExpressionBuilder{d}, procrefs{p} {}
    bool allowProcessReferences() override { return procrefs; }
};

#include "actions.h"

inline void run_step(JW& j, const Step& st, std::shared_ptr<Document>& doc_out, const std::string& workdir, int idx,
                     const std::vector<std::shared_ptr<Document>>& earlier)
{
    const std::string entry = st.get("entry", "xml-buffer");
    const std::string builder = st.get("builder", "document");
    const bool newxta = st.get("newxta", "1") == "1";
    const std::string input = st.get("input");
    const std::string dump = st.get("dump", "doc,diag,inv,methods");
    auto wants = [&](const char* w) { return ("," + dump + ",").find(std::string(",") + w + ",") != std::string::npos; };

    std::shared_ptr<Document> doc;
    if (st.has("reuse")) {
        // C15: a client parses a model once and then parses queries / blocks against the document it kept
        size_t k = (size_t)atoi(st.get("reuse").c_str());
        if (k < earlier.size() && earlier[k]) {
            doc = earlier[k];
            doc->clear_errors();
            doc->clear_warnings();
        }
    }
    if (!doc)
        doc = std::make_shared<Document>();
    if (st.has("base")) {
        try {
            parse_XML_buffer(st.get("base").c_str(), doc.get(), true);
        } catch (std::exception&) {
        }
        j.k("base_errors").num((long long)doc->get_errors().size());
        doc->clear_errors();
        doc->clear_warnings();
    }
    if (st.has("seedpos"))
        UTAP::tracker.position = (uint32_t)strtoull(st.get("seedpos").c_str(), nullptr, 10);
    const uint32_t pos0 = UTAP::tracker.position;
    std::ostringstream pretty_out;
    std::unique_ptr<ParserBuilder> pb;
    TigaPropertyBuilder* tiga = nullptr;
    ScopedExprBuilder* eb = nullptr;
    if (builder == "builder-only")
        pb = std::make_unique<DocumentBuilder>(*doc);
    else if (builder == "pretty")
        pb = std::make_unique<PrettyPrinter>(pretty_out);
    else if (builder == "tiga") {
        auto t = std::make_unique<TigaPropertyBuilder>(*doc);
        tiga = t.get();
        pb = std::move(t);
    } else if (builder == "expression") {
        auto t = std::make_unique<ScopedExprBuilder>(*doc, st.get("procrefs", "0") == "1");
        eb = t.get();
        pb = std::move(t);
    }
    long long ret = 0;
    bool has_ret = false;
    // file based entries
    std::string fname = workdir + "/in-" + std::to_string(getpid()) + "-" + std::to_string(idx);
    auto write_file = [&] {
        if (st.has("nofile"))
            return;  // the file is deliberately missing
        std::ofstream o(fname, std::ios::binary);
        o.write(input.data(), input.size());
    };
    guarded(j, [&] {
        if (entry == "xml-buffer") {
            ret = pb ? parse_XML_buffer(input.c_str(), pb.get(), newxta) : parse_XML_buffer(input.c_str(), doc.get(), newxta);
        } else if (entry == "xml-file") {
            write_file();
            ret = pb ? parse_XML_file(fname.c_str(), pb.get(), newxta) : parse_XML_file(fname.c_str(), doc.get(), newxta);
        } else if (entry == "xml-fd") {
            write_file();
            int fd = open(fname.c_str(), O_RDONLY);
            ret = pb ? parse_XML_fd(fd, pb.get(), newxta) : parse_XML_fd(fd, doc.get(), newxta);
            // libxml2 closes the descriptor (xmlReaderForFd with close callback?) - closing again is harmless
            close(fd);
        } else if (entry == "xta-buffer") {
            ret = pb ? parse_XTA(input.c_str(), pb.get(), newxta) : (long long)parse_XTA(input.c_str(), doc.get(), newxta);
        } else if (entry == "xta-file") {
            write_file();
            FILE* fp = fopen(fname.c_str(), "rb");
            ret = pb ? parse_XTA(fp, pb.get(), newxta) : (long long)parse_XTA(fp, doc.get(), newxta);
            if (fp)
                fclose(fp);
        } else if (entry == "prop-buffer") {
            ret = parseProperty(input.c_str(), pb.get());
        } else if (entry == "prop-file") {
            write_file();
            FILE* fp = fopen(fname.c_str(), "rb");
            ret = parseProperty(fp, pb.get());
            if (fp)
                fclose(fp);
        } else if (entry == "part") {
            auto part = (xta_part_t)atoi(st.get("part", "12").c_str());
            std::unique_ptr<DocumentBuilder> db;
            ParserBuilder* b = pb.get();
            if (!b) {
                db = std::make_unique<DocumentBuilder>(*doc);
                b = db.get();
            }
            ret = parse_XTA(input.c_str(), b, newxta, part, st.get("xpath", ""));
            if (eb && st.get("typecheck", "0") == "1" && eb->getExpressions().size() > 0) {
                // C14: type check the expression like parseExpression() does
                expression_t ex = eb->getExpressions()[0];
                bool had = doc->has_errors();
                j.k("parse_errors").num((long long)doc->get_errors().size());
                if (!had) {
                    TypeChecker tc{*doc};
                    bool ok = tc.checkExpression(ex);
                    j.k("check_ok").boolean(ok);
                }
                Dumper d{*doc};
                d.build_ids();
                j.k("expr").str(d.expr_str(ex));
                j.k("expr_type").str(d.type_str(ex.get_type()));
                j.k("expr_type_kind").str(kind_name(ex.get_type().get_kind()));
            }
        }
        has_ret = true;
    });
    unlink(fname.c_str());
    if (has_ret)
        j.k("ret").num(ret);
    else
        j.k("ret").null();
    j.k("reached_grammar").boolean(UTAP::tracker.position != pos0);
    j.k("tracker_pos").num(UTAP::tracker.position);
    j.k("errno").num(errno);
    if (builder == "pretty")
        j.k("pretty").str(pretty_out.str());
    if (wants("diag")) {
        j.k("errors");
        dump_diag(j, doc->get_errors());
        j.k("warnings");
        dump_diag(j, doc->get_warnings());
    } else {
        j.k("n_errors").num((long long)doc->get_errors().size());
        j.k("n_warnings").num((long long)doc->get_warnings().size());
    }
    if (wants("methods")) {
        auto& m = doc->get_supported_methods();
        j.k("methods").o();
        j.k("symbolic").boolean(m.symbolic);
        j.k("stochastic").boolean(m.stochastic);
        j.k("concrete").boolean(m.concrete);
        j.e();
    }
    Dumper d{*doc};
    d.build_ids();
    if (wants("doc")) {
        j.k("doc");
        d.dump_doc(j);
    }
    if (wants("inv")) {
        bool clean = has_ret && !doc->has_errors() && (builder == "document" || builder == "builder-only") &&
                     (entry.rfind("xml", 0) == 0 || entry.rfind("xta", 0) == 0) && ret == (entry.rfind("xta", 0) == 0 && !pb ? 1 : 0);
        j.k("inv").a();
        for (auto& s : d.invariants(clean))
            j.str(s);
        j.e();
    }
    if (wants("shape")) {
        size_t nl = 0, ne = 0, nb = 0, nv = doc->get_globals().variables.size(), nf = doc->get_globals().functions.size();
        for (auto& t : doc->get_templates()) {
            nl += t.locations.size();
            ne += t.edges.size();
            nb += t.branchpoints.size();
            nv += t.variables.size();
            nf += t.functions.size();
        }
        j.k("shape").o();
        j.k("templates").num((long long)doc->get_templates().size());
        j.k("dyn_templates").num((long long)doc->get_dynamic_templates().size());
        j.k("locations").num((long long)nl);
        j.k("edges").num((long long)ne);
        j.k("branchpoints").num((long long)nb);
        j.k("variables").num((long long)nv);
        j.k("functions").num((long long)nf);
        j.k("processes").num((long long)doc->get_processes().size());
        j.e();
    }
    if (eb && eb->getExpressions().size() > 0 && wants("exprs")) {
        j.k("exprs").a();
        for (int i = (int)eb->getExpressions().size() - 1; i >= 0; --i)
            j.str(d.expr_str(eb->getExpressions()[i]));
        j.e();
    }
    if (tiga) {
        j.k("properties").a();
        for (auto& p : tiga->getProperties()) {
            j.o();
            j.k("type").num((int)p.type);
            j.k("expr").str(d.expr_str(p.intermediate));
            j.k("declaration").str(p.declaration);
            j.k("subjections").num((long long)p.subjections.size());
            j.e();
        }
        j.e();
    }
    run_actions(j, st, *doc, d, workdir, idx);
    if (wants("inv_after")) {
        // the same predicate once more after the actions (queries typed against the document must leave it as it was)
        bool clean = has_ret && !doc->has_errors() && (builder == "document" || builder == "builder-only") &&
                     (entry.rfind("xml", 0) == 0 || entry.rfind("xta", 0) == 0) && ret == (entry.rfind("xta", 0) == 0 && !pb ? 1 : 0);
        j.k("inv_after").a();
        for (auto& s : d.invariants(clean))
            j.str(s);
        j.e();
    }
    if (wants("symtab")) {
        // every symbol the dump has named so far (frames of the document and binders met in expression trees) with its type
        j.k("symtab").o();
        for (auto& kv : d.ids)
            j.k(kv.second).str(d.type_str(kv.first.get_type()));
        j.e();
    }
    doc_out = std::move(doc);
}

inline std::string run_request(const std::vector<std::pair<std::string, std::string>>& req, const std::string& workdir)
{
    std::vector<Step> steps;
    for (auto& kv : req) {
        if (kv.first == "step")
            steps.emplace_back();
        else if (!steps.empty())
            steps.back().f[kv.first] = kv.second;
    }
    JW j;
    j.o();
    j.k("steps").a();
    std::vector<std::shared_ptr<Document>> keep;  // documents are caller-owned and survive (C15: they stay alive)
    int idx = 0;
    for (auto& st : steps) {
        j.o();
        std::shared_ptr<Document> d;
        run_step(j, st, d, workdir, idx++, keep);
        keep.push_back(std::move(d));
        j.e();
    }
    j.e();
    j.e();
    return j.s;
}
