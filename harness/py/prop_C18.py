"""C18: range_t agrees with its set semantics (harness/cpp/c18.cpp does the work)."""
import json
import os
import subprocess

import common

LEVEL = 'exploration'
RULE = ('operands: T=int8_t enumerated (all a<=b with every element e for gt/geq/lt/leq/&e/|e/+e/-e/*e/contains/==e/size; '
        'binary ops &,|,+,-,*,intersects,==,<,> over all a<=b x a strided (quick) or complete (thorough) set of c<=d that '
        'always contains the boundary values), plus a brute-force pointwise hull for +,-,* on |x|<=9; T=int32_t and double '
        'drawn by rapidcheck from boundary-biased generators (min..min+4, max-4..max, +-inf, lowest, max, denormals, '
        'next/prev neighbours, random bit patterns). Non-trivial: at least one operand interval has more than one member; '
        'distinct = distinct (type, op, a, b, c, d, e) tuples (random part counted exactly, enumerated part by '
        'construction). Results that do not fit T (or are NaN) are outside the statement and are skipped and counted.')


def exe():
    return os.path.join(os.environ.get('UTAP_BUILD_ROOT', os.path.join(common.VERIF, '.build')), 'c18', 'c18')


def descriptor_of(line):
    # "int8:lt\t<replay line>\t<description>"
    key = line.split('\t')[0]
    t, op = key.split(':')
    return {'type': t, 'op': op}


def run(chk):
    chk.build('c18')
    n = 200000 if chk.tier == 'quick' else 3000000
    # regression tier: saved reproductions first
    import glob
    for rp in sorted(glob.glob(os.path.join(common.VERIF, 'replays', 'C18', '*.txt'))):
        r0 = subprocess.run([exe(), '--replay', rp], stdout=subprocess.PIPE, stderr=subprocess.PIPE, text=True)
        chk.stats.extra['replayed_files'] += 1
        if r0.returncode != 0:
            for line in r0.stdout.splitlines():
                if line.startswith('FAIL\t'):
                    parts = line.split('\t')
                    chk.report(chk.stats, descriptor_of(parts[1]), parts[3] if len(parts) > 3 else line, {'replay_line': parts[2]})
    out = os.path.join(chk.workdir, 'result.json')
    env = dict(os.environ)
    env['RC_PARAMS'] = 'seed=%d max_success=%d max_size=100' % (chk.seed + 1, n)
    env['UBSAN_OPTIONS'] = 'print_stacktrace=1:halt_on_error=1'
    p = subprocess.run([exe(), chk.tier, out], env=env, stdout=subprocess.PIPE, stderr=subprocess.PIPE, text=True)
    st = chk.stats
    if p.returncode not in (0, 1) or not os.path.exists(out):
        # the target died (UBSan abort inside the header = undefined behaviour on an in-statement input)
        tail = (p.stderr or '')[-1500:]
        chk.rule = RULE
        st.evaluations = 1
        d = {'type': 'any', 'op': 'ubsan-abort'}
        chk.report(st, d, 'c18 target aborted: ' + tail, {'stderr': tail})
        return chk.finish()
    r = json.load(open(out))
    os.unlink(out)
    st.evaluations = r['evaluations']
    # distinct_nontrivial is measured in the target (set of tuples for the random part + enumerated count)
    chk.rule = RULE
    chk.coverage_extra = {
        'skipped_outside_statement': r['skipped_outside_statement'],
        'exhaustive_int8_evaluations': r['exhaustive_int8_evaluations'],
        'int8_binary_space_complete': r['int8_binary_space_complete'],
        'per_op_random': r['per_op_random'],
        'rapidcheck_cases_per_type': n,
    }
    chk.exhaustive = False
    chk.explanation = ('exhaustive only for the int8_t sub-space named in rule (element operations always; binary '
                       'operations when int8_binary_space_complete is true)')
    st.samples = r['samples'][:10]
    nt = r['distinct_nontrivial']
    for line in r['violations']:
        parts = line.split('\t')
        chk.report(st, descriptor_of(line), parts[2] if len(parts) > 2 else line, {'replay_line': parts[1] if len(parts) > 1 else ''})
    # distinct count comes from the target: emulate by padding the set with synthetic keys is wrong; store directly
    rc = finish_with_count(chk, nt)
    return rc


def finish_with_count(chk, nt):
    class _S(set):
        def __len__(self):
            return nt
    chk.stats.nontrivial = _S()
    return chk.finish(confirm=lambda case: confirm(case))


def confirm(case):
    if 'replay_line' not in case:
        return ('x', 'x')
    p = os.path.join(common.WORK, 'C18', 'confirm.txt')
    with open(p, 'w') as f:
        f.write(case['replay_line'] + '\n')
    r = subprocess.run([exe(), '--replay', p], stdout=subprocess.PIPE, stderr=subprocess.PIPE, text=True)
    return ('x', 'x') if r.returncode != 0 else None


def replay(chk, path):
    chk.build('c18')
    if path.endswith('.json'):
        case = json.load(open(path))['case']
        tmp = os.path.join(chk.workdir, 'replay.txt')
        with open(tmp, 'w') as f:
            f.write(case.get('replay_line', '') + '\n')
        path = tmp
    r = subprocess.run([exe(), '--replay', path], text=True)
    if r.returncode != 0:
        print('VIOLATION property=C18 replay=%s' % path)
        return 1
    return 0
