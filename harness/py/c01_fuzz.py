"""libFuzzer layer (C01 layer 2; reused by C08/C03 with their oracles switched on)."""
import base64
import glob
import hashlib
import os
import re
import shutil
import subprocess
import time

import common
import oracle

TARGETS = ['fz_xml', 'fz_xta', 'fz_query', 'fz_part']
FENV = dict(os.environ)
FENV['ASAN_OPTIONS'] = 'detect_leaks=0:abort_on_error=1:allocator_may_return_null=1:symbolize=1'
FENV['UBSAN_OPTIONS'] = 'print_stacktrace=1:halt_on_error=1'
FENV['ASAN_SYMBOLIZER_PATH'] = '/usr/bin/llvm-symbolizer-14'


def fuzz_build_dir():
    return os.path.join(os.environ.get('UTAP_BUILD_ROOT', os.path.join(common.VERIF, '.build')), 'fuzz')


def run_artifact(target, path, oracles='', timeout=120):
    env = dict(FENV)
    env['FZ_ORACLES'] = oracles
    t0 = time.time()
    try:
        p = subprocess.run([os.path.join(fuzz_build_dir(), target), '-timeout=60', '-rss_limit_mb=4096', path], env=env, preexec_fn=oracle.big_stack,
                           stdout=subprocess.PIPE, stderr=subprocess.PIPE, timeout=timeout)
        err = p.stderr.decode('latin-1')
        rc = p.returncode
    except subprocess.TimeoutExpired as e:
        err = (e.stderr or b'').decode('latin-1') + '\nDRIVER-TIMEOUT'
        rc = -9
    return rc, err, time.time() - t0


def classify(rc, err):
    """-> None (clean) or (prop, descriptor, text). prop is the property whose oracle fired."""
    if rc == 0:
        return None
    m = re.search(r'ORACLE-(C\d\d|INFRA): ([^\n]*)', err)
    if m:
        if m.group(1) == 'INFRA':
            return None
        msg = re.sub(r'\d+', 'N', m.group(2))[:120]
        return (m.group(1), {'kind': 'oracle:' + msg, 'frames': ''}, m.group(0))
    if 'ERROR: libFuzzer: timeout' in err or 'DRIVER-TIMEOUT' in err:
        d = oracle.crash_descriptor({'stderr': err[err.find('ERROR: libFuzzer: timeout'):], 'timeout': False})
        return ('C01', {'kind': 'timeout', 'frames': d['frames']}, err[-3000:])
    if 'ERROR: libFuzzer: out-of-memory' in err:
        return ('C01', {'kind': 'oom', 'frames': ''}, err[-3000:])
    d = oracle.crash_descriptor({'stderr': err})
    if d['kind'] == 'unknown':
        d['kind'] = 'exit:%d' % rc
    return ('C01', d, err[:4000])


def campaign(chk, target, runs, max_len, oracles='', seed=1, prop='C01'):
    """One fork-mode campaign. Returns dict(execs, corpus, artifacts=[(path, classification)])."""
    st = chk.stats
    wd = os.path.join(chk.workdir, 'fz', target)
    shutil.rmtree(wd, ignore_errors=True)
    os.makedirs(os.path.join(wd, 'corpus'))
    os.makedirs(os.path.join(wd, 'artifacts'))
    dict_path = os.path.join(wd, 'dict.txt')
    subprocess.run(['python3', os.path.join(common.VERIF, 'bin', 'gen-dict.py'), common.REPO, dict_path], check=True)
    env = dict(FENV)
    env['FZ_ORACLES'] = oracles
    exe = os.path.join(fuzz_build_dir(), target)
    cmd = [exe, '-fork=%d' % common.JOBS, '-runs=%d' % runs, '-seed=%d' % seed, '-max_len=%d' % max_len, '-timeout=25',
           '-rss_limit_mb=2048', '-ignore_crashes=1', '-ignore_timeouts=1', '-ignore_ooms=1', '-dict=' + dict_path,
           '-artifact_prefix=' + os.path.join(wd, 'artifacts') + '/', os.path.join(wd, 'corpus'),
           os.path.join(common.VERIF, 'corpus', target)]
    extra = os.path.join(common.VERIF, 'corpus', target + '_gen')
    if os.path.isdir(extra):
        cmd.append(extra)
    t0 = time.time()
    p = subprocess.run(cmd, env=env, stdout=subprocess.PIPE, stderr=subprocess.PIPE, cwd=wd, preexec_fn=oracle.big_stack)
    err = p.stderr.decode('latin-1')
    m = re.search(r'fuzzed for (\d+) iterations', err)
    execs = int(m.group(1)) if m else 0
    covs = [int(x) for x in re.findall(r'cov: (\d+)', err)]
    st.extra['fuzz_execs:' + target] += execs
    st.extra['fuzz_edge_cov:' + target] = max(st.extra['fuzz_edge_cov:' + target], max(covs) if covs else 0)
    st.evaluations += execs
    # measure non-trivial corpus entries: run the final corpus once with the reach report on
    rep = os.path.join(wd, 'reach.txt')
    env2 = dict(env)
    env2['FZ_REPORT'] = rep
    env2['FZ_ORACLES'] = ''
    subprocess.run([exe, '-runs=0', '-rss_limit_mb=4096', os.path.join(wd, 'corpus'), os.path.join(common.VERIF, 'corpus', target)],
                   env=env2, stdout=subprocess.DEVNULL, stderr=subprocess.DEVNULL, cwd=wd)
    reached = 0
    if os.path.exists(rep):
        reached = sum(1 for l in open(rep) if l.strip() == '1')
    files = glob.glob(os.path.join(wd, 'corpus', '*'))
    for f in files[:reached]:
        st.nontrivial.add(common.h8(target + os.path.basename(f)))
    st.extra['fuzz_corpus:' + target] += len(files)
    st.extra['fuzz_corpus_reaching_grammar:' + target] += reached
    for f in files[:2]:
        data = open(f, 'rb').read()
        st.samples.append({'target': target, 'input_prefix': data[:160].decode('latin-1')})
    # triage artifacts
    arts = sorted(glob.glob(os.path.join(wd, 'artifacts', '*')))
    st.extra['fuzz_artifacts:' + target] += len(arts)
    seen = {}
    for a in arts:
        base = os.path.basename(a)
        if base.startswith('slow-unit'):
            continue
        rc, aerr, dt = run_artifact(target, a, oracles)
        c = classify(rc, aerr)
        if c is None:
            st.extra['fuzz_artifacts_not_reproduced'] += 1
            continue
        p_id, d, text = c
        if d['kind'] in ('timeout', 'oom'):
            # confirm on a second and third run; size rule of DESIGN C01
            ok = os.path.getsize(a) <= 65536
            for _ in range(2):
                rc2, e2, dt2 = run_artifact(target, a, oracles)
                c2 = classify(rc2, e2)
                if c2 is None or c2[1]['kind'] != d['kind']:
                    ok = False
            if not ok or d['kind'] == 'oom':
                st.inconclusive += 1
                continue
        key = (p_id, d['kind'], d['frames'])
        if key in seen:
            continue
        seen[key] = a
        data = open(a, 'rb').read()
        case = {'kind': 'fuzz', 'target': target, 'oracles': oracles, 'b64': base64.b64encode(data).decode()}
        if p_id != prop:
            # an oracle of another property fired (cannot happen unless it was switched on); count only
            st.extra['other_property_artifacts:' + p_id] += 1
            continue
        chk.report(st, d, '%s artifact %s (%d bytes): %s' % (target, base, len(data), text[:1500]), case)
    return execs


def confirm_fuzz(case):
    wd = os.path.join(common.WORK, 'fzconfirm')
    os.makedirs(wd, exist_ok=True)
    data = base64.b64decode(case['b64'])
    p = os.path.join(wd, hashlib.sha1(data).hexdigest()[:16])
    with open(p, 'wb') as f:
        f.write(data)
    rc, err, dt = run_artifact(case['target'], p, case.get('oracles', ''))
    c = classify(rc, err)
    os.unlink(p)
    if c is None:
        return None
    return (c[1], c[2])


def run(chk, oracles='', prop='C01'):
    chk.build('fuzz')
    quick = chk.tier == 'quick'
    runs = {'fz_xml': 60000, 'fz_xta': 60000, 'fz_query': 80000, 'fz_part': 80000} if quick else \
           {'fz_xml': 1500000, 'fz_xta': 1500000, 'fz_query': 2000000, 'fz_part': 2000000}
    max_len = 4096 if quick else 65536
    for t in TARGETS:
        campaign(chk, t, runs[t], max_len, oracles=oracles, seed=chk.seed + 1, prop=prop)
