"""Abstract expression trees, the reference operator table (C02), renderers and canonical form.

Trees are tuples:
  ('id', name) ('int', v) ('dbl', text) ('bool', 0|1)
  ('un', op, e)        op in '-', '+', '!', 'not'
  ('pre', op, e) ('post', op, e)     op in '++', '--'
  ('bin', op, l, r)    op: symbolic or keyword binary operator text
  ('asg', op, l, r)    op in '=', ':=', '+=', ...
  ('iif', c, t, e)
  ('idx', a, i) ('dot', e, field) ('call', fname, [args]) ('rate', e)
  ('bf', fname, [args])     builtin function
  ('q', kw, binder, typetext, body)   kw in forall/exists/sum

The reference table below is written from the UPPAAL language's operator table (help: "Expressions"), not derived
from parser.y: level (higher binds tighter) and associativity.
"""
import struct

# ---------------------------------------------------------------- reference operator table
L_POSTFIX, L_PREINC, L_UNARY = 16, 15, 14
BIN = {
    # text: (KIND, level, assoc)
    '**': ('POW', 13, 'L'),
    '*': ('MULT', 12, 'L'), '/': ('DIV', 12, 'L'), '%': ('MOD', 12, 'L'),
    '+': ('PLUS', 11, 'L'), '-': ('MINUS', 11, 'L'),
    '<<': ('BIT_LSHIFT', 10, 'L'), '>>': ('BIT_RSHIFT', 10, 'L'),
    '<?': ('MIN', 9, 'L'), '>?': ('MAX', 9, 'L'),
    '<': ('LT', 8, 'L'), '<=': ('LE', 8, 'L'), '>=': ('GE', 8, 'L'), '>': ('GT', 8, 'L'),
    '==': ('EQ', 7, 'L'), '!=': ('NEQ', 7, 'L'),
    '&': ('BIT_AND', 6, 'L'),
    '^': ('BIT_XOR', 5, 'L'),
    '|': ('BIT_OR', 4, 'L'),
    '&&': ('AND', 3, 'L'), 'and': ('AND', 3, 'L'),
    '||': ('OR', 2, 'L'), 'or': ('OR', 2, 'L'), 'xor': ('XOR', 2, 'L'), 'imply': ('IMPLY', 2, 'L'),
}
ASG = {'=': 'ASSIGN', ':=': 'ASSIGN', '+=': 'ASS_PLUS', '-=': 'ASS_MINUS', '*=': 'ASS_MULT', '/=': 'ASS_DIV', '%=': 'ASS_MOD',
       '|=': 'ASS_OR', '&=': 'ASS_AND', '^=': 'ASS_XOR', '<<=': 'ASS_LSHIFT', '>>=': 'ASS_RSHIFT'}
L_ASSIGN = 1   # '?:' and the assignment family share one right-associative level
L_QUANT = 0
UN = {'-': 'UNARY_MINUS', '+': None, '!': 'NOT', 'not': 'NOT'}
PRE = {'++': 'PRE_INCREMENT', '--': 'PRE_DECREMENT'}
POST = {'++': 'POST_INCREMENT', '--': 'POST_DECREMENT'}
QUANT = {'forall': 'FORALL', 'exists': 'EXISTS', 'sum': 'SUM'}
BUILTIN1 = {'abs': 'ABS_F', 'fabs': 'FABS_F', 'exp': 'EXP_F', 'exp2': 'EXP2_F', 'expm1': 'EXPM1_F', 'ln': 'LN_F', 'log': 'LOG_F',
            'log10': 'LOG10_F', 'log2': 'LOG2_F', 'log1p': 'LOG1P_F', 'sqrt': 'SQRT_F', 'cbrt': 'CBRT_F', 'sin': 'SIN_F',
            'cos': 'COS_F', 'tan': 'TAN_F', 'asin': 'ASIN_F', 'acos': 'ACOS_F', 'atan': 'ATAN_F', 'sinh': 'SINH_F',
            'cosh': 'COSH_F', 'tanh': 'TANH_F', 'asinh': 'ASINH_F', 'acosh': 'ACOSH_F', 'atanh': 'ATANH_F', 'erf': 'ERF_F',
            'erfc': 'ERFC_F', 'tgamma': 'TGAMMA_F', 'lgamma': 'LGAMMA_F', 'ceil': 'CEIL_F', 'floor': 'FLOOR_F',
            'trunc': 'TRUNC_F', 'round': 'ROUND_F', 'fint': 'FINT_F', 'ilogb': 'ILOGB_F', 'logb': 'LOGB_F',
            'fpclassify': 'FP_CLASSIFY_F', 'isfinite': 'IS_FINITE_F', 'isinf': 'IS_INF_F', 'isnan': 'IS_NAN_F',
            'isnormal': 'IS_NORMAL_F', 'signbit': 'SIGNBIT_F', 'isunordered': 'IS_UNORDERED_F', 'random': 'RANDOM_F', 'random_poisson': 'RANDOM_POISSON_F'}
BUILTIN2 = {'fmod': 'FMOD_F', 'fmax': 'FMAX_F', 'fmin': 'FMIN_F', 'fdim': 'FDIM_F', 'pow': 'POW_F', 'hypot': 'HYPOT_F',
            'atan2': 'ATAN2_F', 'ldexp': 'LDEXP_F', 'nextafter': 'NEXT_AFTER_F', 'copysign': 'COPY_SIGN_F',
            'random_arcsine': 'RANDOM_ARCSINE_F', 'random_beta': 'RANDOM_BETA_F',
            'random_gamma': 'RANDOM_GAMMA_F', 'random_normal': 'RANDOM_NORMAL_F', 'random_weibull': 'RANDOM_WEIBULL_F'}
BUILTIN3 = {'fma': 'FMA_F', 'random_tri': 'RANDOM_TRI_F'}

# ---------------------------------------------------------------- environment used by expression-level checks
ENV_DECL = ('int a, b, c; bool p, q; int arr[4]; int m[2][3]; struct { int f; int g; } s; struct { int f; int g; } sa[2]; '
            'clock x, y; double d, e; typedef int[0,3] T; int fn(int u, int v) { return u; } int g0() { return 1; } '
            'void w(int &r) { r = 1; }')
ENV_XML = ('<nta><declaration>%s</declaration><template><name>P</name><declaration>int loc; clock z;</declaration>'
           '<location id="id0"><name>L0</name></location><location id="id1"><name>L1</name></location><init ref="id0"/>'
           '<transition><source ref="id0"/><target ref="id1"/></transition></template>'
           '<system>Q = P(); R = P(); system Q, R;</system></nta>') % ENV_DECL.replace('&', '&amp;').replace('<', '&lt;')
INT_IDS = ['a', 'b', 'c']
BOOL_IDS = ['p', 'q']
FIELDS = {'f': 0, 'g': 1}


def level(t):
    k = t[0]
    if k in ('id', 'bool', 'dbl', 'idx', 'dot', 'call', 'rate', 'post', 'bf'):
        return 17 if k in ('id', 'bool', 'dbl', 'bf') else L_POSTFIX
    if k == 'int':
        return 17
    if k == 'un':
        return L_UNARY
    if k == 'pre':
        return L_PREINC
    if k == 'bin':
        return BIN[t[1]][1]
    if k in ('asg', 'iif'):
        return L_ASSIGN
    if k == 'q':
        return L_QUANT
    raise ValueError(k)


def _paren(s):
    return '(' + s + ')'


def render(t, mode='min', ws=' '):
    """mode 'min': only the parentheses the table requires; 'full': every operand parenthesised."""
    full = mode == 'full'

    def sub(e, need):
        s = render(e, mode, ws)
        if full:
            return s if e[0] in ('id', 'bool', 'dbl') or (e[0] == 'int' and e[1] >= 0) else _paren(s)
        return _paren(s) if need else s

    k = t[0]
    if k == 'id':
        return t[1]
    if k == 'int':
        return str(t[1])
    if k == 'dbl':
        return t[1]
    if k == 'bool':
        return 'true' if t[1] else 'false'
    if k == 'un':
        e = t[2]
        # prefix on prefix never needs parentheses, but must not glue into ++ / --
        need = level(e) < L_UNARY and e[0] not in ('un', 'pre')
        s = sub(e, need)
        op = t[1]
        sep = ' ' if (op == 'not' or s[:1] in '+-') else ''
        return op + sep + s
    if k == 'pre':
        e = t[2]
        need = level(e) < L_PREINC and e[0] not in ('un', 'pre')
        s = sub(e, need)
        return t[1] + (' ' if s[:1] in '+-' else '') + s
    if k == 'post':
        return sub(t[2], level(t[2]) < L_POSTFIX) + t[1]
    if k == 'rate':
        return sub(t[1], level(t[1]) < L_POSTFIX) + "'"
    if k == 'idx':
        return sub(t[1], level(t[1]) < L_POSTFIX) + '[' + render(t[2], mode, ws) + ']'
    if k == 'dot':
        return sub(t[1], level(t[1]) < L_POSTFIX) + '.' + t[2]
    if k == 'call':
        return t[1] + '(' + (',' + ws).join(render(a, mode, ws) for a in t[2]) + ')'
    if k == 'bf':
        return t[1] + '(' + (',' + ws).join(render(a, mode, ws) for a in t[2]) + ')'
    if k == 'bin':
        op = t[1]
        _, lv, assoc = BIN[op]
        l, r = t[2], t[3]
        nl = level(l) < lv or (level(l) == lv and assoc == 'R')
        nr = level(r) < lv or (level(r) == lv and assoc == 'L')
        return sub(l, nl) + ws + op + ws + sub(r, nr)
    if k == 'asg':
        l, r = t[2], t[3]
        return sub(l, level(l) <= L_ASSIGN) + ws + t[1] + ws + sub(r, level(r) < L_ASSIGN)
    if k == 'iif':
        c, a, b = t[1], t[2], t[3]
        return sub(c, level(c) <= L_ASSIGN) + ws + '?' + ws + sub(a, False) + ws + ':' + ws + sub(b, level(b) < L_ASSIGN)
    if k == 'q':
        return '%s (%s : %s) %s' % (t[1], t[2], t[3], sub(t[4], False))
    raise ValueError(k)


def hexfloat(text):
    """C99 %a rendering of the correctly rounded double of a decimal literal (matches printf("%a"))."""
    v = float(text)
    if v == 0.0:
        return '0x0p+0'
    bits = struct.unpack('<Q', struct.pack('<d', v))[0]
    exp = (bits >> 52) & 0x7ff
    man = bits & ((1 << 52) - 1)
    if exp == 0:  # subnormal: glibc prints 0x0.xxxp-1022
        h = '%013x' % man
        h = h.rstrip('0')
        return '0x0.%sp-1022' % h
    h = ('%013x' % man).rstrip('0')
    return '0x1%sp%+d' % (('.' + h) if h else '', exp - 1023)


class Canon:
    """Canonical S-expression of an abstract tree, in the format of the oracle server's expr_str()."""

    def __init__(self, scope='g', binders=None):
        self.scope = scope
        self.n = 0
        self.stack = list(binders or [])

    def ident(self, name):
        for nm, sid in reversed(self.stack):
            if nm == name:
                return '(IDENTIFIER @%s)' % sid
        return '(IDENTIFIER @%s/%s)' % (self.scope, name)

    def c(self, t):
        k = t[0]
        if k == 'id':
            return self.ident(t[1])
        if k == 'int':
            return '(CONSTANT %d)' % t[1]
        if k == 'dbl':
            return '(CONSTANT d:%s)' % hexfloat(t[1])
        if k == 'bool':
            return '(CONSTANT b:%d)' % t[1]
        if k == 'un':
            kind = UN[t[1]]
            inner = self.c(t[2])
            return inner if kind is None else '(%s %s)' % (kind, inner)
        if k == 'pre':
            return '(%s %s)' % (PRE[t[1]], self.c(t[2]))
        if k == 'post':
            return '(%s %s)' % (POST[t[1]], self.c(t[2]))
        if k == 'rate':
            return '(RATE %s)' % self.c(t[1])
        if k == 'idx':
            return '(ARRAY %s %s)' % (self.c(t[1]), self.c(t[2]))
        if k == 'dot':
            return '(DOT .%d %s)' % (FIELDS[t[2]], self.c(t[1]))
        if k == 'call':
            return '(FUN_CALL %s)' % ' '.join([self.ident(t[1])] + [self.c(a) for a in t[2]])
        if k == 'bf':
            kind = BUILTIN1.get(t[1]) or BUILTIN2.get(t[1]) or BUILTIN3.get(t[1])
            return '(%s %s)' % (kind, ' '.join(self.c(a) for a in t[2]))
        if k == 'bin':
            kind = BIN[t[1]][0]
            l, r = self.c(t[2]), self.c(t[3])
            if kind == 'IMPLY':
                return '(OR (NOT %s) %s)' % (l, r)
            return '(%s %s %s)' % (kind, l, r)
        if k == 'asg':
            return '(%s %s %s)' % (ASG[t[1]], self.c(t[2]), self.c(t[3]))
        if k == 'iif':
            return '(INLINE_IF %s %s %s)' % (self.c(t[1]), self.c(t[2]), self.c(t[3]))
        if k == 'q':
            sid = '?%d/%s' % (self.n, t[2])
            self.n += 1
            b = '(IDENTIFIER @%s)' % sid
            self.stack.append((t[2], sid))
            body = self.c(t[4])
            self.stack.pop()
            return '(%s %s %s)' % (QUANT[t[1]], b, body)
        raise ValueError(k)


def canon(t, scope='g'):
    return Canon(scope).c(t)


def count_ops(t):
    k = t[0]
    if k in ('id', 'int', 'dbl', 'bool'):
        return 0
    n = 1
    for x in t[1:]:
        if isinstance(x, tuple):
            n += count_ops(x)
        elif isinstance(x, list):
            n += sum(count_ops(y) for y in x)
    return n


def kinds_in(t, acc=None):
    acc = acc if acc is not None else set()
    k = t[0]
    if k in ('bin', 'asg', 'un', 'pre', 'post'):
        acc.add(k + ':' + t[1])
    elif k not in ('id', 'int', 'dbl', 'bool'):
        acc.add(k if k != 'q' else 'q:' + t[1])
    for x in t[1:]:
        if isinstance(x, tuple):
            kinds_in(x, acc)
        elif isinstance(x, list):
            for y in x:
                kinds_in(y, acc)
    return acc


# ---------------------------------------------------------------- enumeration of depth-2 forms
A, B, C, D = ('id', 'a'), ('id', 'b'), ('id', 'c'), ('id', 'p')


def forms():
    """All syntactic operator forms as (name, builder, arity) where builder(list_of_operands) -> tree."""
    fs = []
    for op in BIN:
        fs.append(('bin:' + op, (lambda o: (lambda xs: ('bin', o, xs[0], xs[1])))(op), 2))
    for op in ASG:
        fs.append(('asg:' + op, (lambda o: (lambda xs: ('asg', o, xs[0], xs[1])))(op), 2))
    for op in UN:
        fs.append(('un:' + op, (lambda o: (lambda xs: ('un', o, xs[0])))(op), 1))
    for op in PRE:
        fs.append(('pre:' + op, (lambda o: (lambda xs: ('pre', o, xs[0])))(op), 1))
        fs.append(('post:' + op, (lambda o: (lambda xs: ('post', o, xs[0])))(op), 1))
    fs.append(('iif', lambda xs: ('iif', xs[0], xs[1], xs[2]), 3))
    fs.append(('idx', lambda xs: ('idx', xs[0], xs[1]), 2))
    fs.append(('rate', lambda xs: ('rate', xs[0]), 1))
    fs.append(('call2', lambda xs: ('call', 'fn', [xs[0], xs[1]]), 2))
    fs.append(('bf1', lambda xs: ('bf', 'abs', [xs[0]]), 1))
    fs.append(('bf2', lambda xs: ('bf', 'fmax', [xs[0], xs[1]]), 2))
    fs.append(('bf3', lambda xs: ('bf', 'fma', [xs[0], xs[1], xs[2]]), 3))
    for kw in QUANT:
        fs.append(('q:' + kw, (lambda o: (lambda xs: ('q', o, 'i', 'int[0,3]', xs[0])))(kw), 1))
    return fs


def depth2_trees():
    """Every (parent form, slot, child form) triple, other slots filled with identifiers."""
    fs = forms()
    leaves = [A, B, C]
    out = []
    for pn, pb, pa in fs:
        for slot in range(pa):
            # 'idx' slot 0 / 'rate' / inc/dec want lvalue-ish operands syntactically anything goes
            for cn, cb, ca in fs:
                child = cb([leaves[(slot + 1 + j) % 3] for j in range(ca)])
                ops = [leaves[j % 3] for j in range(pa)]
                ops[slot] = child
                out.append((pn + '|' + str(slot) + '|' + cn, pb(ops)))
    return out


# ---------------------------------------------------------------- hypothesis strategy
def strategy(max_leaves=12, with_quant=True, with_assign=True, bool_ids=True):
    from hypothesis import strategies as st
    ids = INT_IDS + (BOOL_IDS if bool_ids else [])
    leaf = st.one_of(
        st.sampled_from(ids).map(lambda n: ('id', n)),
        st.sampled_from([0, 1, 2, 7, 10, 255, 2147483647]).map(lambda v: ('int', v)),
        st.integers(0, 2147483647).map(lambda v: ('int', v)),
        st.sampled_from([('bool', 0), ('bool', 1), ('int', -2147483648), ('dbl', '0.5'), ('dbl', '1e3'), ('dbl', '2.25')]),
    )

    def ext(ch):
        alts = [
            st.tuples(st.sampled_from(sorted(BIN)), ch, ch).map(lambda x: ('bin', x[0], x[1], x[2])),
            st.tuples(st.sampled_from(sorted(BIN)), ch, ch).map(lambda x: ('bin', x[0], x[1], x[2])),
            st.tuples(st.sampled_from(sorted(UN)), ch).map(lambda x: ('un', x[0], x[1])),
            st.tuples(st.sampled_from(sorted(PRE)), ch).map(lambda x: ('pre', x[0], x[1])),
            st.tuples(st.sampled_from(sorted(POST)), ch).map(lambda x: ('post', x[0], x[1])),
            st.tuples(ch, ch, ch).map(lambda x: ('iif', x[0], x[1], x[2])),
            st.tuples(st.sampled_from([('id', 'arr'), ('idx', ('id', 'm'), ('int', 1))]), ch).map(lambda x: ('idx', x[0], x[1])),
            st.tuples(ch, ch).map(lambda x: ('call', 'fn', [x[0], x[1]])),
            st.sampled_from([('dot', ('id', 's'), 'f'), ('dot', ('id', 's'), 'g'), ('call', 'g0', []),
                             ('dot', ('idx', ('id', 'sa'), ('int', 1)), 'g')]),
            st.tuples(st.sampled_from(sorted(BUILTIN1)), ch).map(lambda x: ('bf', x[0], [x[1]])),
            st.tuples(st.sampled_from(sorted(BUILTIN2)), ch, ch).map(lambda x: ('bf', x[0], [x[1], x[2]])),
            st.tuples(st.sampled_from(sorted(BUILTIN3)), ch, ch, ch).map(lambda x: ('bf', x[0], [x[1], x[2], x[3]])),
            st.sampled_from([('rate', ('id', 'x')), ('rate', ('id', 'y'))]),
        ]
        if with_assign:
            alts.append(st.tuples(st.sampled_from(sorted(ASG)), ch, ch).map(lambda x: ('asg', x[0], x[1], x[2])))
        if with_quant:
            alts.append(st.tuples(st.sampled_from(sorted(QUANT)), st.sampled_from(['i', 'j', 'a']),
                                  st.sampled_from(['int[0,3]', 'T']), ch).map(lambda x: ('q', x[0], x[1], x[2], x[3])))
        return st.one_of(*alts)

    return st.recursive(leaf, ext, max_leaves=max_leaves)
