"""Deterministic single-fault mutations of an XML document (C01 layer 1, also feeds C08)."""
import re
from xml.dom import minidom


def _walk(node, acc):
    for ch in list(node.childNodes):
        acc.append(ch)
        _walk(ch, acc)


def _serialize(doc):
    # keep DOCTYPE out (toxml would keep it; harmless either way)
    return doc.toxml()


def mutations(xml_text):
    """Yield (label, mutated_text). Every mutation is a single edit of the document."""
    base = minidom.parseString(xml_text.encode('utf-8'))
    nodes = []
    _walk(base, nodes)
    n_nodes = len(nodes)
    # collect id-like values
    ids = []
    for nd in nodes:
        if nd.nodeType == nd.ELEMENT_NODE:
            for k in ('id', 'ref'):
                if nd.hasAttribute(k):
                    v = nd.getAttribute(k)
                    if v not in ids:
                        ids.append(v)

    def fresh():
        d = minidom.parseString(xml_text.encode('utf-8'))
        acc = []
        _walk(d, acc)
        assert len(acc) == n_nodes
        return d, acc

    for i, nd in enumerate(nodes):
        if nd.nodeType == nd.ELEMENT_NODE:
            tag = nd.tagName
            path = '%s#%d' % (tag, i)
            for an in sorted(nd.attributes.keys()):
                d, acc = fresh()
                acc[i].removeAttribute(an)
                yield ('drop-attr %s@%s' % (path, an), _serialize(d))
                d, acc = fresh()
                acc[i].setAttribute(an, '')
                yield ('empty-attr %s@%s' % (path, an), _serialize(d))
                if an in ('id', 'ref', 'instanceid'):
                    cur = nd.getAttribute(an)
                    others = [v for v in ids if v != cur][:2] + ['nosuchid']
                    for v in others:
                        d, acc = fresh()
                        acc[i].setAttribute(an, v)
                        yield ('dup-attr %s@%s=%s' % (path, an, v), _serialize(d))
                else:
                    d, acc = fresh()
                    acc[i].setAttribute(an, 'bogus')
                    yield ('bogus-attr %s@%s' % (path, an), _serialize(d))
            if nd.parentNode is not None and nd.parentNode.nodeType == nd.ELEMENT_NODE:
                d, acc = fresh()
                acc[i].parentNode.removeChild(acc[i])
                yield ('drop-elem %s' % path, _serialize(d))
                d, acc = fresh()
                acc[i].parentNode.insertBefore(acc[i].cloneNode(True), acc[i])
                yield ('dup-elem %s' % path, _serialize(d))
                # move one element sibling up / down
                d, acc = fresh()
                prev = acc[i].previousSibling
                while prev is not None and prev.nodeType != prev.ELEMENT_NODE:
                    prev = prev.previousSibling
                if prev is not None:
                    par = acc[i].parentNode
                    par.removeChild(acc[i])
                    par.insertBefore(acc[i], prev)
                    yield ('move-up %s' % path, _serialize(d))
                d, acc = fresh()
                nxt = acc[i].nextSibling
                while nxt is not None and nxt.nodeType != nxt.ELEMENT_NODE:
                    nxt = nxt.nextSibling
                if nxt is not None:
                    par = acc[i].parentNode
                    par.removeChild(nxt)
                    par.insertBefore(nxt, acc[i])
                    yield ('move-down %s' % path, _serialize(d))
                # element made empty (all children removed)
                if nd.childNodes:
                    d, acc = fresh()
                    for ch in list(acc[i].childNodes):
                        acc[i].removeChild(ch)
                    yield ('empty-elem %s' % path, _serialize(d))
                # rename to an unknown / another known tag
                for nt in ('bogus', 'label', 'location'):
                    if nt != tag:
                        d, acc = fresh()
                        acc[i].tagName = nt
                        acc[i].nodeName = nt
                        yield ('rename %s->%s' % (path, nt), _serialize(d))
        elif nd.nodeType == nd.TEXT_NODE and nd.data.strip():
            par = nd.parentNode.tagName if nd.parentNode is not None and nd.parentNode.nodeType == nd.ELEMENT_NODE else '?'
            path = '%s/text#%d' % (par, i)
            for lab, val in (('empty', ''), ('blank', ' \n\t '), ('comment-only', '/* c */'), ('unterminated-comment', nd.data + ' /* c'),
                             ('stray', nd.data + ' )'), ('stray-front', '] ' + nd.data), ('only-token', ';'),
                             ('half', nd.data[:max(1, len(nd.data) // 2)])):
                d, acc = fresh()
                acc[i].data = val
                yield ('text-%s %s' % (lab, path), _serialize(d))
    # truncations after every '>'
    full = _serialize(base)
    cut_points = [m.end() for m in re.finditer('>', full)]
    for cp in cut_points[:-1]:
        yield ('truncate@%d' % cp, full[:cp])
    # truncations inside text (after every 97th character)
    for cp in range(50, len(full), 97):
        yield ('truncate-mid@%d' % cp, full[:cp])
