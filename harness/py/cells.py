"""Shared machinery of the cell-family checks (C11, C12, C13, C17): small models assembled from pieces, batched execution."""
from xml.sax.saxutils import escape

import oracle


HOST = None     # set by embedding(): pieces of a generated host model that every model() call is spliced into


def host_from_model(m, seed=0):
    """pieces of an accepted generated model (gen_model.py), all its identifiers renamed to fresh ones so that they cannot clash with a cell"""
    import random
    import re
    import xml.etree.ElementTree as ET
    import prop_C09
    xml2, mapping, _ = prop_C09.rewrite_tokens(m.xml(), 'R3', random.Random(seed))
    root = ET.fromstring(xml2.encode('utf-8'))
    sysel = root.find('system')
    systext = sysel.text or ''
    k = systext.rfind('system ')
    names = re.findall(r'[A-Za-z_][A-Za-z_0-9$#]*', systext[k + 7:])
    inst = ((root.find('instantiation').text if root.find('instantiation') is not None else '') or '') + ' ' + systext[:k]
    return {'gdecl': (root.find('declaration').text or ''), 'templates': ''.join(ET.tostring(t, encoding='unicode') for t in root.findall('template')),
            'inst': inst.strip(), 'processes': names}


class embedding:
    """with embedding(host): every cells.model() call is spliced into the host model"""

    def __init__(self, host):
        self.host = host

    def __enter__(self):
        global HOST
        HOST = self.host

    def __exit__(self, *a):
        global HOST
        HOST = None


def model(gdecl='', tparams='', tdecl='', inv=None, guard=None, sync=None, assign=None, select=None, prob=None, rate=None,
          system='system P;', inst='', extra_templates='', inv2=None, extra_edges=''):
    """One template P: L0 (init, invariant) --[labels]--> L1 ; with prob: L0 -> branchpoint -> L1 (weight on the second edge)."""
    def lab(kind, text):
        return '<label kind="%s">%s</label>' % (kind, escape(text)) if text is not None else ''
    if HOST is not None:
        gdecl = HOST['gdecl'] + '\n' + gdecl
        extra_templates = HOST['templates'] + extra_templates
        inst = (HOST['inst'] + ' ' + inst).strip()
        k = system.rfind('system ')
        system = system[:k] + system[k:].rstrip().rstrip(';') + ''.join(', ' + n for n in HOST['processes']) + ';'
    out = ['<nta><declaration>%s</declaration>' % escape(gdecl)]
    out.append(extra_templates)
    out.append('<template><name>P</name>')
    if tparams:
        out.append('<parameter>%s</parameter>' % escape(tparams))
    out.append('<declaration>%s</declaration>' % escape(tdecl))
    out.append('<location id="id0"><name>L0</name>%s%s</location>' % (lab('invariant', inv), lab('exponentialrate', rate)))
    out.append('<location id="id1"><name>L1</name>%s</location>' % lab('invariant', inv2))
    if prob is not None:
        out.append('<branchpoint id="id2"/>')
    out.append('<init ref="id0"/>')
    labels = lab('select', select) + lab('guard', guard) + lab('synchronisation', sync) + lab('assignment', assign)
    if prob is not None:
        out.append('<transition><source ref="id0"/><target ref="id2"/>%s</transition>' % labels)
        out.append('<transition><source ref="id2"/><target ref="id1"/>%s</transition>' % lab('probability', prob))
    else:
        out.append('<transition><source ref="id0"/><target ref="id1"/>%s</transition>' % labels)
    out.append(extra_edges)
    out.append('</template>')
    if inst:
        out.append('<instantiation>%s</instantiation>' % escape(inst))
    out.append('<system>%s</system></nta>' % escape(system))
    return ''.join(out)


class Runner:
    """executes models (optionally with queries) in batches; caches by text"""

    def __init__(self, orc, stats, dump='diag,methods'):
        self.orc = orc
        self.stats = stats
        self.cache = {}
        self.dump = dump

    @staticmethod
    def key(xml, queries):
        return xml + '\x00' + '\n'.join(queries or ())

    def step(self, xml, queries):
        d = dict(entry='xml-buffer', builder='document', newxta=1, input=xml, dump=self.dump)
        if queries:
            d['actions'] = 'queries'
            d['queries'] = '\n'.join(queries)
        return d

    @staticmethod
    def digest(s):
        """-> dict(errors=[msg..], warnings=[..], exc=class or None, methods=..., query_errors=[...])"""
        out = {'errors': [e['msg'] for e in s.get('errors', [])], 'error_paths': [e['path'] for e in s.get('errors', [])],
               'warnings': [e['msg'] for e in s.get('warnings', [])],
               'exc': (s.get('exc') or {}).get('class'), 'methods': s.get('methods'), 'query_errors': [], 'crash': None}
        for q in s.get('queries', []):
            msgs = [m for m in q.get('msgs', []) if m.startswith('E:')]
            if q.get('exc'):
                msgs.append('EXC:' + q['exc']['class'])
            out['query_errors'].append(msgs)
        return out

    def run_many(self, items):
        """items: list of (xml, queries or None) -> list of digests"""
        todo = []
        seen = set()
        for xml, qs in items:
            k = self.key(xml, qs)
            if k not in self.cache and k not in seen:
                seen.add(k)
                todo.append((xml, qs))
        for i in range(0, len(todo), 30):
            chunk = todo[i:i + 30]
            r = self.orc.request([self.step(x, q) for x, q in chunk])
            if 'crash' in r:
                for x, q in chunk:
                    r1 = self.orc.request([self.step(x, q)])
                    if 'crash' in r1:
                        self.cache[self.key(x, q)] = {'errors': [], 'error_paths': [], 'warnings': [], 'exc': None, 'methods': None, 'query_errors': [],
                                                      'crash': oracle.crash_descriptor(r1['crash'])['kind']}
                    else:
                        self.cache[self.key(x, q)] = self.digest(r1['steps'][0])
                continue
            for (x, q), s in zip(chunk, r['steps']):
                self.cache[self.key(x, q)] = self.digest(s)
        return [self.cache[self.key(x, q)] for x, q in items]


def rejected(d):
    """a model (+ queries) counts as rejected if any error is reported on the document or on any of its queries, or the parse threw"""
    return bool(d['errors'] or d['exc'] or any(d['query_errors']))
