"""Driver: ./check <ID> [--tier quick|thorough] [--replay FILE]   (tier also VERIF_TIER, seed VERIF_SEED)"""
import argparse
import importlib
import os
import sys

sys.path.insert(0, os.path.dirname(os.path.abspath(__file__)))
import common


def main():
    ap = argparse.ArgumentParser()
    ap.add_argument('prop')
    ap.add_argument('--tier', default=os.environ.get('VERIF_TIER', 'quick'))
    ap.add_argument('--replay', default=None)
    a = ap.parse_args()
    tier = a.tier if a.tier in ('quick', 'thorough') else 'quick'
    try:
        seed = int(os.environ.get('VERIF_SEED', '0'))
    except ValueError:
        seed = 0
    os.chdir(common.VERIF)
    mod = importlib.import_module('prop_' + a.prop)
    chk = common.Check(a.prop, tier, seed, level=getattr(mod, 'LEVEL', 'exploration'))
    if a.replay:
        sys.exit(mod.replay(chk, a.replay))
    sys.exit(mod.run(chk))


if __name__ == '__main__':
    main()
