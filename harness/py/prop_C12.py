"""C12: no accepted model writes to a constant."""
import glob
import json
import os

import cells
import common
import oracle

LEVEL = 'exploration'

BASE = ('int m, m2; int ma[3]; struct { int f; int g; } ms; bool bb; '
        'const int cg = 2; const int ca[3] = {1,2,3}; const struct { int f; int g; } cs = {1,2}; '
        'typedef struct { int f; int g; } ST; const ST cas[2] = {{1,2},{3,4}}; ST mas[2]; '
        'typedef const int CI; CI tc = 3; typedef int AT[3]; const AT cta = {1,2,3}; AT mta; '
        'meta int mm; '
        'typedef struct { int b; const int a[2]; } SCA; SCA sca = { 3, { 1, 2 } }; typedef struct { int b; int a[2]; } SMA; SMA sma = { 3, { 1, 2 } }; '
        'typedef const int celem_t; typedef struct { celem_t e[2]; int b; } SCE; SCE sce = { { 1, 2 }, 3 }; typedef struct { int e[2]; int b; } SME; SME sme = { { 1, 2 }, 3 }; '
        'SCA scaa[2] = { { 3, { 1, 2 } }, { 4, { 5, 6 } } }; SMA smaa[2] = { { 3, { 1, 2 } }, { 4, { 5, 6 } } }; '
        'void wr(int &r) { r = 1; } void wra(int &r[3]) { r[0] = 1; } void wrs(ST &r) { r.f = 1; } int ma2[2]; void wra2(int &r[2]) { r[0] = 1; } ')

# ---- write forms on an int lvalue {LV}; {M} = a mutable int lvalue of the same scope
INT_FORMS = [('assign', '{LV} = 1')]
for op in ['+=', '-=', '*=', '/=', '%=', '|=', '&=', '^=', '<<=', '>>=']:
    INT_FORMS.append(('op-assign ' + op, '{LV} %s 1' % op))
INT_FORMS += [('post-inc', '{LV}++'), ('pre-inc', '++{LV}'), ('post-dec', '{LV}--'), ('pre-dec', '--{LV}'),
              ('inline-if-lvalue-first', '(bb ? {LV} : {M}) = 1'), ('inline-if-lvalue-second', '(bb ? {M} : {LV}) = 1'),
              ('inline-if-lvalue-inc', '(bb ? {M} : {LV})++'),
              ('chained-assign', '{M} = {LV} = 1'), ('assign-result-lvalue', '({LV} = 1) = 2'),
              ('pre-inc-result-lvalue', '++(++{LV})'),
              ('ref-argument-function', 'wr({LV})'), ('ref-argument-inline-if', 'wr(bb ? {M} : {LV})')]


def sources():
    """name -> dict(kind='update'|'function'|'special', const lvalue, mutable twin lvalue, extra pieces)"""
    S = []
    # -- int lvalues reachable from an update label (expression context)
    for name, lv, mv in [('const-global', 'cg', 'm'), ('const-array-element', 'ca[1]', 'ma[1]'), ('const-array-element-variable-index', 'ca[m2]', 'ma[m2]'),
                         ('const-struct-field', 'cs.f', 'ms.f'), ('const-array-of-struct-field', 'cas[1].g', 'mas[1].g'),
                         ('typedef-const', 'tc', 'm'), ('const-typedef-array-element', 'cta[0]', 'mta[0]'),
                         ('const-array-field-of-mutable-struct', 'sca.a[0]', 'sma.a[0]'), ('const-element-typedef-array-field', 'sce.e[1]', 'sme.e[1]'),
                         ('const-array-field-of-struct-array-element', 'scaa[1].a[0]', 'smaa[1].a[0]')]:
        S.append(dict(name=name, where='update', lv=lv, mv=mv))
        S.append(dict(name=name + '@function', where='function', lv=lv, mv=mv, fparams='', flocals=''))
    S.append(dict(name='const-template-local', where='update', lv='cl', mv='ml', tdecl='const int cl = 1; int ml; '))
    S.append(dict(name='const-template-local-array', where='update', lv='cla[0]', mv='mla[0]', tdecl='const int cla[2] = {1,2}; int mla[2]; '))
    S.append(dict(name='const-template-parameter', where='update', lv='cp', mv='mp', tparams='const int cp, int &mp', inst='Q = P(1, m);', system='system Q;'))
    S.append(dict(name='const-ref-template-parameter', where='update', lv='cp', mv='mp', tparams='const int &cp, int &mp', inst='Q = P(cg, m);', system='system Q;'))
    S.append(dict(name='const-template-parameter-in-local-function', where='tfunction', lv='cp', mv='mp', tparams='const int cp, int &mp', inst='Q = P(1, m);', system='system Q;'))
    S.append(dict(name='const-function-local', where='function', lv='c', mv='l', fparams='', flocals='const int c = 1; int l; '))
    S.append(dict(name='const-function-local-array', where='function', lv='c[1]', mv='l[1]', fparams='', flocals='const int c[2] = {1,2}; int l[2]; '))
    S.append(dict(name='const-function-local-in-nested-block', where='function', lv='c', mv='l', fparams='', flocals='int l; const int c = 1; { { ', fclose=' } }'))
    S.append(dict(name='const-value-parameter', where='function', lv='p', mv='q', fparams='const int p, int q', flocals=''))
    S.append(dict(name='const-ref-parameter', where='function', lv='p', mv='q', fparams='const int &p, int &q', flocals=''))
    S.append(dict(name='const-ref-array-parameter', where='function', lv='p[0]', mv='q[0]', fparams='const int &p[3], int &q[3]', flocals=''))
    S.append(dict(name='const-ref-struct-parameter', where='function', lv='p.f', mv='q.f', fparams='const ST &p, ST &q', flocals=''))
    S.append(dict(name='const-array-field-of-reference-parameter', where='function', lv='p.a[0]', mv='q.a[0]', fparams='SCA &p, SMA &q', flocals=''))
    S.append(dict(name='const-array-field-of-function-local-struct', where='function', lv='ls.a[1]', mv='lm.a[1]', fparams='', flocals='SCA ls = { 1, { 1, 2 } }; SMA lm = { 1, { 1, 2 } }; '))
    S.append(dict(name='iteration-binder', where='function', lv='k', mv='l', fparams='', flocals='int l; for (k : int[0,1]) { ', fclose=' }'))
    S.append(dict(name='iteration-binder-nested', where='function', lv='k', mv='l', fparams='', flocals='int l; for (j : int[0,1]) for (k : int[0,1]) { ', fclose=' }'))
    S.append(dict(name='select-binder', where='update', lv='s', mv='m', select='s : int[0,2]'))
    S.append(dict(name='select-binder-second', where='update', lv='s2', mv='m', select='s : int[0,2], s2 : int[0,1]'))
    return S


def whole_object_cells():
    """writes to whole const arrays / structs and reference arguments of array / struct type: (name, W stmt, R stmt)"""
    return [('whole-array-assign', 'ca = ma', 'ma = ca'), ('whole-struct-assign', 'cs = ms', 'ms = cs'),
            ('whole-typedef-array-assign', 'cta = mta', 'mta = cta'),
            ('ref-argument-array', 'wra(ca)', 'wra(ma)'), ('ref-argument-typedef-array', 'wra(cta)', 'wra(mta)'),
            ('ref-argument-struct-element', 'wrs(cas[0])', 'wrs(mas[0])'),
            ('struct-element-assign', 'cas[0] = mas[0]', 'mas[0] = cas[0]'),
            ('whole-const-array-field-assign', 'sca.a = ma2', 'sma.a = ma2'), ('ref-argument-const-array-field', 'wra2(sca.a)', 'wra2(sma.a)')]


def instantiation_cells():
    """reference argument of a template instantiation: (name, W argument, R argument, parameter text)"""
    return [('const-global', 'cg', 'm', 'int &r'), ('const-array-element', 'ca[1]', 'ma[1]', 'int &r'), ('const-struct-field', 'cs.f', 'ms.f', 'int &r'),
            ('typedef-const', 'tc', 'm', 'int &r'), ('const-array', 'ca', 'ma', 'int &r[3]'), ('const-struct-element', 'cas[1]', 'mas[1]', 'ST &r'),
            ('const-typedef-array', 'cta', 'mta', 'int &r[3]')]


def quantifier_cells():
    """binder of forall / exists / sum: only the rejection half applies (no side-effect-permitting context exists)"""
    out = []
    for kw, wrap in (('forall', '%s'), ('exists', '%s'), ('sum', '(%s) > 0')):
        for fn, tmpl in (('assign', '(k = 1) > 0'), ('post-inc', 'k++ > 0'), ('pre-dec', '--k > 0'), ('op-assign', '(k += 1) > 0'), ('ref-argument', 'wrq(k) > 0')):
            body = tmpl if kw != 'sum' else tmpl.replace(' > 0', '')
            expr = wrap % ('%s (k : int[0,2]) %s' % (kw, body))
            out.append(('%s-binder' % kw, fn, expr))
    return out


RULE = ('cell enumeration: constness sources (const global, element of a const array with constant and variable index, field of a '
        'const struct, field of an element of a const array of structs, typedef\'d const, element of a const array typedef, const '
        'template local / local array, const value and const reference template parameter (in labels and in a template-local '
        'function), const function local (also in a nested block) / local array, const value / reference / reference-array / '
        'reference-struct function parameter, for (k : T) binder (also nested), select binders) x write forms (=, every op=, '
        '++/-- pre and post, inline-if lvalue with the const branch first / second, chained assignment, assignment and '
        'pre-increment results as lvalues, reference argument of a function, also through an inline-if), in update labels and in '
        'function bodies; whole-object writes (const array / struct / element assignment, array and struct reference arguments); '
        'reference arguments of template instantiations and of spawn T(..) of a dynamic template (the reference parameter first, last, alone); forall/exists/sum binders (rejection half only: no context permits a '
        'write there). Twin: the same operation on a mutable object of the same type and scope. Oracle: the write to the '
        'constant is rejected (>= 1 error), the twin is accepted (no error). A stride of the cells (quick: every 9th, thorough: every 2nd) is additionally spliced into larger generated models (hosts from gen_model.py with all identifiers renamed) and judged the same way. Non-trivial: every cell; distinct = (source, form, host).')


def assemble(src, stmt):
    kw = {k: src[k] for k in ('tdecl', 'tparams', 'inst', 'system', 'select') if k in src}
    g = BASE
    if src['where'] == 'update':
        kw['assign'] = stmt
    elif src['where'] == 'function':
        g += 'void h(%s) { %s%s;%s } ' % (src.get('fparams', ''), src.get('flocals', ''), stmt, src.get('fclose', ''))
    elif src['where'] == 'tfunction':
        kw['tdecl'] = kw.get('tdecl', '') + 'void h() { %s; } ' % stmt
    return cells.model(gdecl=g, **kw)


def build_cells():
    """-> list of (source name, form name, W model, R model or None)"""
    out = []
    for src in sources():
        for fname, tmpl in INT_FORMS:
            w = tmpl.replace('{LV}', src['lv']).replace('{M}', src['mv'])
            r = tmpl.replace('{LV}', src['mv']).replace('{M}', src['mv'])
            out.append((src['name'], fname, assemble(src, w), assemble(src, r)))
    upd = dict(name='whole', where='update')
    fun = dict(name='whole@function', where='function')
    for fname, w, r in whole_object_cells():
        out.append(('whole-object', fname, assemble(upd, w), assemble(upd, r)))
        out.append(('whole-object@function', fname, assemble(fun, w), assemble(fun, r)))
    for sname, wa, ra, ptext in instantiation_cells():
        tmpl = ('<template><name>R</name><parameter>%s</parameter><declaration></declaration><location id="r0"><name>K0</name></location>'
                '<init ref="r0"/></template>') % ptext.replace('&', '&amp;')
        mk = lambda a: cells.model(gdecl=BASE, extra_templates=tmpl, inst='Q = R(%s);' % a, system='system P, Q;')
        out.append((sname, 'ref-argument-template-instantiation', mk(wa), mk(ra)))
        mk2 = lambda a: cells.model(gdecl=BASE, extra_templates=tmpl, system='Q = R(%s); system P, Q;' % a)
        out.append((sname, 'ref-argument-template-instantiation-in-system-block', mk2(wa), mk2(ra)))
    # the dynamic way to instantiate a template: spawn T(args); the reference parameter first, last, and as the only one
    for sname, wa, ra, ptext in instantiation_cells():
        if ptext != 'int &r':
            continue      # parameters of dynamic templates are integers or booleans (the library says so)
        for style, dparams, args in (('only', ptext, '%s'), ('last-of-two', 'int a0, ' + ptext, '1, %s'), ('first-of-two', ptext + ', int a1', '%s, 1')):
            dtmpl = ('<template><name>DC</name><parameter>%s</parameter><declaration></declaration><location id="d0"><name>D0</name></location>'
                     '<init ref="d0"/></template>') % dparams.replace('&', '&amp;')
            mk3 = lambda a: cells.model(gdecl=BASE + 'dynamic DC(%s); ' % dparams, extra_templates=dtmpl, assign='spawn DC(%s)' % (args % a))
            out.append((sname, 'ref-argument-spawn:' + style, mk3(wa), mk3(ra)))
    gq = BASE + 'int wrq(int &r) { r = 1; return 0; } '
    for sname, fname, expr in quantifier_cells():
        out.append((sname, fname + '@function', cells.model(gdecl=gq + 'bool hq() { return %s; } ' % expr), None))
        out.append((sname, fname + '@update', cells.model(gdecl=gq + 'bool bq; ', assign='bq = %s' % expr), None))
    return out


def worker(chk, wi, nw):
    stats = common.Stats()
    orc = oracle.Oracle(os.path.join(chk.workdir, 'w%d' % wi), cpu_limit=60)
    run = cells.Runner(orc, stats)
    mine_ids = [k for k, c in enumerate(build_cells()) if k % nw == wi]

    def evaluate(ids, embedded):
        allc = build_cells()          # rebuilt so that cells.model() sees the host that is currently set
        subset = [allc[k] for k in ids]
        items = []
        for (sname, fname, W, R) in subset:
            items.append((W, None))
            if R is not None:
                items.append((R, None))
        res = run.run_many(items)
        pos = 0
        tag = '@embedded' if embedded else ''
        for (sname, fname, W, R) in subset:
            w = res[pos]
            pos += 1
            r = None
            if R is not None:
                r = res[pos]
                pos += 1
            lhs = any(('Left_hand_side' in m or 'Incompatible_argument' in m) for m in w['errors'])
            stats.case(sname + '|' + fname + ('|' + W if embedded else ''), nontrivial=True,
                       classes=['source:' + sname.split('@')[0], 'form:' + fname.split('@')[0].split(' ')[0], 'W:' + ('rejected' if cells.rejected(w) else 'ACCEPTED'),
                                'W-message:' + ('lvalue/argument' if lhs else 'other')] + (['embedded'] if embedded else []),
                       sample={'source': sname, 'form': fname, 'embedded': embedded, 'W_errors': w['errors'][:2]})
            if w['crash'] or (r and r['crash']):
                stats.extra['crashes_seen_(C01)'] += 1
                continue
            if not cells.rejected(w):
                chk.report(stats, {'source': sname, 'form': fname, 'side': 'const-write-accepted' + tag},
                           'write form %s on constness source %s is accepted%s' % (fname, sname, ' inside a larger generated model' if embedded else ''), {'kind': 'model', 'xml': W, 'expect': 'rejected'})
            if r is not None and cells.rejected(r):
                chk.report(stats, {'source': sname, 'form': fname, 'side': 'twin-rejected' + tag},
                           'the mutable twin of %s on %s is rejected%s: %r' % (fname, sname, ' inside a larger generated model' if embedded else '', r['errors'][:2]), {'kind': 'model', 'xml': R, 'expect': 'accepted'})

    evaluate(mine_ids, False)

    # the same cells spliced into larger generated models
    import gen_model as M
    from hypothesis import strategies as st
    stride = 9 if chk.tier == 'quick' else 2

    def test(args):
        m, off = args
        host = cells.host_from_model(m, off)
        with cells.embedding(host):
            evaluate(mine_ids[off % stride::stride], True)
        return None

    common.run_hypothesis(chk, stats, st.tuples(M.models(need_clean=True, max_templates=2), st.integers(0, 1000)), test, 3 if chk.tier == 'quick' else 20,
                          chk.seed * 1000 + wi, shrink=False)
    orc.close()
    return stats


def confirm(case):
    orc = oracle.Oracle(os.path.join(common.WORK, 'C12', 'confirm'), cpu_limit=30)
    try:
        d = cells.Runner(orc, common.Stats()).run_many([(case['xml'], None)])[0]
        rej = cells.rejected(d)
        if case['expect'] == 'rejected' and not rej:
            return ({}, 'accepted')
        if case['expect'] == 'accepted' and rej:
            return ({}, 'rejected: %r' % d['errors'][:2])
        return None
    finally:
        orc.close()


def run(chk):
    chk.build('oracle')
    chk.rule = RULE
    chk.assumptions = ['"via comma" of the quantifier text is not expressible: \'(\' Expression \')\' does not admit an expression list, so (m = 1, c) = 3 is a syntax error and a, c = 3 groups as a, (c = 3); the cell is listed here as unreachable',
                       'quantifier binders have no accepted twin (their context forbids every write); only the rejection half is checked there']
    for p in sorted(glob.glob(os.path.join(common.VERIF, 'replays', 'C12', '*.json'))):
        rec = json.load(open(p))
        case = rec.get('case', rec)
        chk.stats.case('replay:' + os.path.basename(p), True, ['replay'])
        r = confirm(case)
        if r:
            chk.report(chk.stats, {'source': 'replay', 'form': os.path.basename(p), 'side': 'replay'}, r[1], case)
    chk.run_workers(worker)
    chk.exhaustive = True
    chk.explanation = 'exhaustive for the stated finite (constness source x write form) cell table; it says nothing about sources or forms outside that table'
    return chk.finish(confirm=confirm)


def replay(chk, path):
    chk.build('oracle')
    rec = json.load(open(path))
    case = rec.get('case', rec)
    r = confirm(case)
    if r:
        print('  ' + str(r[1])[:1500])
        print('VIOLATION property=C12 replay=%s' % path)
        return 1
    print('replay: no violation')
    return 0
