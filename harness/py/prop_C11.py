"""C11: contexts that must be side-effect free reject every expression that can write state."""
import glob
import json
import os

from hypothesis import strategies as st

import cells
import common
import oracle

LEVEL = 'exploration'

BASE = ('int v; int va[3]; struct { int f; int g; } vs; const int cv = 2; const int cva[3] = {1,2,3}; const struct { int f; int g; } cvs = {1,2}; '
        'clock x; broadcast chan c[4]; bool bb; const bool cbb = true; int f1(int a) { return a; } ')

# ---- direct write forms: (name, W expression, R expression); all int valued
DIRECT = [('assign', 'v = 1', 'cv + 1')]
for op in ['+=', '-=', '*=', '/=', '%=', '|=', '&=', '^=', '<<=', '>>=']:
    DIRECT.append(('op-assign ' + op, 'v %s 1' % op, 'cv %s 1' % op[:-1]))
DIRECT += [('post-inc', 'v++', 'cv + 1'), ('pre-inc', '++v', 'cv + 1'), ('post-dec', 'v--', 'cv - 1'), ('pre-dec', '--v', 'cv - 1'),
           ('array-element', 'va[0] = 1', 'cva[0] + 1'), ('array-element-inc', 'va[1]++', 'cva[1] + 1'),
           ('struct-field', 'vs.f = 1', 'cvs.f + 1'), ('struct-field-inc', 'vs.g++', 'cvs.g + 1'),
           ('inline-if-lvalue', '(bb ? v : va[0]) = 1', '(cbb ? cv : cva[0]) + 1'),
           ('nested-in-arithmetic', '1 + (v = 1) * 2', '1 + (cv + 1) * 2'),
           ('nested-in-index', 'cva[v++ % 3]', 'cva[cv % 3]'),
           ('nested-in-call-argument', 'f1(v = 1)', 'f1(cv + 1)'),
           ('nested-in-inline-if-branch', 'cbb ? (v = 1) : 0', 'cbb ? (cv + 1) : 0'),
           ('nested-in-inline-if-condition', '(v = 1) > 0 ? 1 : 0', '(cv + 1) > 0 ? 1 : 0'),
           ('nested-in-builtin', 'abs(v = 1)', 'abs(cv + 1)')]

# ---- writer functions: body templates; WS = a write statement, WE = a write expression (int valued)
FUN_BODIES = {
    'body': '{ int l = 0; WS return l; }',
    'if-branch': '{ int l = 0; if (cbb) { WS } return l; }',
    'else-branch': '{ int l = 0; if (cbb) { l = 1; } else WS return l; }',
    'if-condition': '{ int l = 0; if (WE > 0) l = 1; return l; }',
    'for-body': '{ int l = 0; int k; for (k = 0; k < 2; k++) WS return l; }',
    'for-init': '{ int l = 0; int k = 0; for (WE; k < 2; k++) { l = k; } return l; }',
    'for-condition': '{ int l = 0; int k; for (k = 0; WE < 0; k++) { l = k; } return l; }',
    'for-step': '{ int l = 0; int k = 0; for (k = 0; k < 2; WE) { k++; } return l; }',
    'while-body': '{ int l = 0; int k = 0; while (k < 2) { WS k++; } return l; }',
    'while-condition': '{ int l = 0; while (WE < 0) { l++; } return l; }',
    'do-body': '{ int l = 0; int k = 0; do { WS k++; } while (k < 2); return l; }',
    'do-condition': '{ int l = 0; int k = 0; do { k++; } while (WE < 0); return l; }',
    'iteration-body': '{ int l = 0; for (k : int[0,1]) WS return l; }',
    'nested-block': '{ int l = 0; { { WS } } return l; }',
    'return-expression': '{ int l = 0; return WE; }',
    'inline-if-in-return': '{ int l = 0; return cbb ? WE : 0; }',
    'after-return-in-branch': '{ int l = 0; if (cbb) return 0; WS return l; }',
    'call-argument': '{ int l = 0; return f1(WE); }',
    'switch-free-sequence': '{ int l = 0; l = 1; l = l + 1; WS l = l * 2; return l; }',
}
# writes whose target is chosen by an inline-if between a local and a global (either order), and reference arguments chosen that way
COND_FUNS = [
    ('cond-lvalue-local-first', 'int wf() { int l = 0; (cbb ? l : v) = 1; return l; } ', 'int wf() { int l = 0; int l2 = 0; (cbb ? l : l2) = 1; return l; } '),
    ('cond-lvalue-global-first', 'int wf() { int l = 0; (cbb ? v : l) = 1; return l; } ', 'int wf() { int l = 0; int l2 = 0; (cbb ? l2 : l) = 1; return l; } '),
    ('cond-lvalue-increment', 'int wf() { int l = 0; (cbb ? l : v)++; return l; } ', 'int wf() { int l = 0; int l2 = 0; (cbb ? l : l2)++; return l; } '),
    ('cond-lvalue-op-assign', 'int wf() { int l = 0; (cbb ? l : va[1]) += 2; return l; } ', 'int wf() { int l = 0; int la[2]; (cbb ? l : la[1]) += 2; return l; } '),
    ('cond-lvalue-parameter-first', 'int wf0(int p) { (p > 0 ? p : v) = 1; return p; } int wf() { return wf0(1); } ', 'int wf0(int p) { int l2 = 0; (p > 0 ? p : l2) = 1; return p; } int wf() { return wf0(1); } '),
    ('cond-reference-argument', 'void wr0(int &r) { r = 1; } int wf() { int l = 0; wr0(cbb ? l : v); return l; } ', 'void wr0(int &r) { r = 1; } int wf() { int l = 0; int l2 = 0; wr0(cbb ? l : l2); return l; } '),
    ('nested-cond-lvalue', 'int wf() { int l = 0; int l2 = 0; (cbb ? l : (cbb ? l2 : v)) = 1; return l; } ', 'int wf() { int l = 0; int l2 = 0; int l3 = 0; (cbb ? l : (cbb ? l2 : l3)) = 1; return l; } '),
    ('comma-free-chained-assign', 'int wf() { int l = 0; l = v = 1; return l; } ', 'int wf() { int l = 0; int l2 = 0; l = l2 = 1; return l; } '),
    ('array-element-by-local-index', 'int wf() { int l = 1; va[l] = 2; return l; } ', 'int wf() { int l = 1; int la[3]; la[l] = 2; return l; } '),
]
STMTS = {  # name -> (write statement, write expression, read statement, read expression)
    'assign': ('v = 1;', '(v = 1)', 'l = cv + 1;', '(cv + 1)'),
    'increment': ('v++;', '(v++)', 'l++;', '(l + 1)'),
    'array-element': ('va[1] = 1;', '(va[1] = 1)', 'l = cva[1];', '(cva[1])'),
    'struct-field': ('vs.f += 2;', '(vs.f += 2)', 'l = cvs.f + 2;', '(cvs.f + 2)'),
}


def fun_decl(name, body_key, stmt_key, write):
    ws, we, rs, re_ = STMTS[stmt_key]
    body = FUN_BODIES[body_key].replace('WS', ws if write else rs).replace('WE', we if write else re_)
    return 'int %s() %s ' % (name, body)


def call_forms():
    """(name, W gdecl addition, R gdecl addition, W expression, R expression)"""
    out = []
    for bk in FUN_BODIES:
        for sk in (STMTS if bk == 'body' else ['assign', 'increment'] if bk in ('if-branch', 'for-body', 'iteration-body') else ['assign']):
            out.append(('call:%s:%s' % (bk, sk), fun_decl('wf', bk, sk, True), fun_decl('wf', bk, sk, False), 'wf()', 'wf()'))
    for nm, wd, rd in COND_FUNS:
        out.append(('call:' + nm, wd, rd, 'wf()', 'wf()'))
    # call chains of depth 1..4 below the caller
    for depth in (1, 2, 3, 4):
        w = fun_decl('wf0', 'body', 'assign', True)
        r = fun_decl('wf0', 'body', 'assign', False)
        for k in range(1, depth + 1):
            link = 'int wf%d() { return wf%d(); } ' % (k, k - 1) if k % 2 else 'int wf%d() { int l = 0; if (cbb) l = wf%d(); return l; } ' % (k, k - 1)
            w += link
            r += link
        out.append(('call-chain:%d' % depth, w, r, 'wf%d()' % depth, 'wf%d()' % depth))
    # through a non-const reference parameter (twin: by value / const reference)
    out.append(('ref-param', 'int wr(int &r) { r = 1; return 0; } ', 'int wr(int r) { r = 1; return 0; } ', 'wr(v)', 'wr(cv)'))
    out.append(('ref-param-array', 'int wr(int &r[3]) { r[0] = 1; return 0; } ', 'int wr(const int &r[3]) { return r[0]; } ', 'wr(va)', 'wr(cva)'))
    out.append(('ref-param-struct-field', 'int wr(int &r) { r++; return 0; } ', 'int wr(const int &r) { return r; } ', 'wr(vs.f)', 'wr(cvs.f)'))
    out.append(('ref-param-forwarded', 'int wr0(int &r) { r = 1; return 0; } int wr(int &r) { return wr0(r); } ',
                'int wr0(int r) { r = 1; return 0; } int wr(int r) { return wr0(r); } ', 'wr(v)', 'wr(cv)'))
    out.append(('ref-param-in-loop', 'int wr(int &r) { int k; for (k = 0; k < 2; k++) { r += k; } return 0; } ',
                'int wr(int r) { int k; for (k = 0; k < 2; k++) { r += k; } return 0; } ', 'wr(v)', 'wr(cv)'))
    return out


# ---- contexts: name -> function(E, gextra) -> (model kwargs, queries or None); E is an int valued expression text
def contexts():
    C = {}
    C['guard'] = lambda E: (dict(guard='(%s) >= 0' % E), None)
    C['guard-conjunct'] = lambda E: (dict(guard='x >= 1 && (%s) >= 0' % E), None)
    C['invariant'] = lambda E: (dict(inv='(%s) >= 0' % E), None)
    C['invariant-conjunct'] = lambda E: (dict(inv='x <= 5 && (%s) >= 0' % E), None)
    C['sync-index'] = lambda E: (dict(sync='c[%s]!' % E), None)
    C['probability'] = lambda E: (dict(prob='(%s) + 1' % E), None)
    C['select-bound'] = lambda E: (dict(select='s : int[0, (%s) + 1]' % E), None)
    C['global-initialiser'] = lambda E: (dict(gpost='int g = %s; ' % E), None)
    C['template-initialiser'] = lambda E: (dict(tdecl='int tl = %s; ' % E), None)
    C['function-local-initialiser'] = lambda E: (dict(gpost='void h() { int fl = %s; } ' % E), None)
    C['array-size'] = lambda E: (dict(gpost='int ar[(%s) + 2]; ' % E), None)
    C['range-bound'] = lambda E: (dict(gpost='int[0, (%s) + 2] rb; ' % E), None)
    C['instantiation-argument'] = lambda E: (dict(tparams='const int pp', inst='Q = P(%s);' % E, system='system Q;'), None)
    C['forall-body-in-guard'] = lambda E: (dict(guard='forall (k : int[0,2]) (%s) >= k' % E), None)
    C['exists-body-in-function'] = lambda E: (dict(gpost='bool hq() { return exists (k : int[0,2]) (%s) >= k; } ' % E), None)
    C['sum-body-in-function'] = lambda E: (dict(gpost='int hs() { return sum (k : int[0,2]) (%s); } ' % E), None)
    C['assert'] = lambda E: (dict(gpost='void ha() { assert((%s) >= 0); } ' % E), None)
    C['query-reachability'] = lambda E: ({}, ['E<> (%s) >= 0' % E])
    C['query-safety-conjunct'] = lambda E: ({}, ['A[] P.L0 imply (%s) >= 0' % E])
    C['query-leadsto'] = lambda E: ({}, ['P.L0 --> (%s) >= 0' % E])
    C['query-sup'] = lambda E: ({}, ['sup: %s' % E])
    C['query-inf-predicate'] = lambda E: ({}, ['inf{(%s) >= 0}: x' % E])
    C['query-simulate'] = lambda E: ({}, ['simulate [<=10] {%s}' % E])
    C['query-probability'] = lambda E: ({}, ['Pr[<=10](<> (%s) >= 0)' % E])
    return C


RULE = ('cell enumeration: %d side-effect-free contexts (guard, guard conjunct, invariant, invariant conjunct, synchronisation index, '
        'probability weight, select bound, global / template / function-local initialiser, array size, range bound, instantiation '
        'argument, forall/exists/sum body, assert, and queries: reachability, safety, leads-to, sup, inf predicate, simulate, '
        'Pr) x %d write forms (=, every op=, ++/-- pre and post, array element, struct field, inline-if lvalue, writes nested in '
        'arithmetic / index / call argument / inline-if / builtin; calls of a writer whose write sits in the body, an if or else '
        'branch, an if/for/while/do condition, a for init/step, for/while/do/iteration bodies, a nested block, a return '
        'expression, after an early return, in a call argument; call chains of depth 1..4; writes through non-const reference '
        'parameters incl. arrays, fields, forwarding and loops; in the query contexts also calls of template-local writers through a process, P.wf()). Each cell gives a model W with the write and a twin R where '
        'the write is replaced by a read of the same shape (of constants, so that compile-time contexts stay legal) or by a '
        'write to the callee\'s own locals / by-value parameters. Oracle: W is rejected (>= 1 error on the document or the '
        'query), R is accepted (no error). A stride of the cells (quick: every 9th, thorough: every 2nd, rotating) is additionally spliced into larger generated models (gen_model.py hosts with all identifiers renamed: other declarations, templates and processes around the cell) and judged the same way. Non-trivial: every cell (each has a W that differs from its R); distinct = (context, form, host).')


def build_cells():
    C = contexts()
    out = []
    for cname, cf in C.items():
        for (fname, W, R) in DIRECT:
            out.append((cname, 'direct:' + fname, '', W, '', R))
        for (fname, wdecl, rdecl, WE, RE) in call_forms():
            out.append((cname, fname, wdecl, WE, rdecl, RE))
    out += process_call_cells(C)
    return C, out


def assemble(C, cname, gextra, E):
    kw, qs = C[cname](E)
    kw = dict(kw)
    gpost = kw.pop('gpost', '')
    if isinstance(gextra, dict):      # a cell that also needs template-local declarations / its own system line
        kw.update({k: v for k, v in gextra.items() if k != 'g'})
        gextra = gextra.get('g', '')
    return cells.model(gdecl=BASE + gextra + gpost, **kw), qs


def process_call_cells(C):
    """queries that call a function of a process: P.wf() with wf declared in the template (it writes a global, a template variable, or calls on)"""
    forms = [('writes-global', 'int wf() { v = 1; return 1; } ', 'int wf() { return cv; } '),
             ('writes-template-variable', 'int tv; int wf() { tv = 1; return 1; } ', 'int tv; int wf() { return cv; } '),
             ('increments-global-in-loop', 'int wf() { int k; for (k = 0; k < 2; k++) { v++; } return 1; } ', 'int wf() { int k; int l = 0; for (k = 0; k < 2; k++) { l++; } return l; } '),
             ('call-chain', 'int wf0() { v = 1; return 1; } int wf() { return wf0(); } ', 'int wf0() { return cv; } int wf() { return wf0(); } '),
             ('calls-global-writer', 'int wf() { return gwf(); } ', 'int wf() { return grf(); } ')]
    out = []
    for cname in C:
        if not cname.startswith('query'):
            continue
        for style, kw, E in [('template-as-process', dict(system='system P;'), 'P.wf()'), ('instance', dict(inst='Q = P();', system='system Q;'), 'Q.wf()'),
                             ('two-instances', dict(inst='Q = P(); R = P();', system='system Q, R;'), 'R.wf()')]:
            if cname in ('query-safety-conjunct', 'query-leadsto') and style != 'template-as-process':
                continue      # these two contexts name the location P.L0
            for fname, wt, rt in forms:
                g = 'int gwf() { v = 1; return 1; } int grf() { return cv; } '
                out.append((cname, 'process-call:%s:%s' % (fname, style), dict(kw, g=g, tdecl=wt), E, dict(kw, g=g, tdecl=rt), E))
    return out


def worker(chk, wi, nw):
    stats = common.Stats()
    orc = oracle.Oracle(os.path.join(chk.workdir, 'w%d' % wi), cpu_limit=60)
    run = cells.Runner(orc, stats)
    C, allc = build_cells()
    mine = [c for k, c in enumerate(allc) if k % nw == wi]

    def evaluate(subset, extra_classes, embedded):
        items = []
        for (cname, fname, wdecl, WE, rdecl, RE) in subset:
            items.append(assemble(C, cname, wdecl, WE))
            items.append(assemble(C, cname, rdecl, RE))
        res = run.run_many(items)
        for k, (cname, fname, wdecl, WE, rdecl, RE) in enumerate(subset):
            w, r = res[2 * k], res[2 * k + 1]
            fam = fname.split(':')[0]
            se = any('side-effect' in m for m in w['errors'] + [m for q in w['query_errors'] for m in q])
            stats.case(cname + '|' + fname + ('|' + items[2 * k][0] if embedded else ''), nontrivial=True,
                       classes=['context:' + cname, 'form:' + fam, 'W:' + ('rejected' if cells.rejected(w) else 'ACCEPTED'),
                                'W-message:' + ('side-effect' if se else 'other')] + extra_classes,
                       sample={'context': cname, 'form': fname, 'W': WE, 'W_decl': str(wdecl)[:120], 'embedded': embedded,
                               'W_errors': (w['errors'] + [m for q in w['query_errors'] for m in q])[:2]})
            if w['crash'] or r['crash']:
                stats.extra['crashes_seen_(C01)'] += 1
                continue
            tag = '@embedded' if embedded else ''
            if not cells.rejected(w):
                chk.report(stats, {'context': cname, 'form': fname, 'side': 'write-accepted' + tag},
                           'context %s accepts the write form %s (%s%s)%s' % (cname, fname, wdecl, WE, ' inside a larger generated model' if embedded else ''),
                           {'kind': 'model', 'xml': items[2 * k][0], 'queries': items[2 * k][1], 'expect': 'rejected'})
            if cells.rejected(r):
                chk.report(stats, {'context': cname, 'form': fname, 'side': 'twin-rejected' + tag},
                           'context %s rejects the side-effect-free twin of %s (%s%s)%s: %r' % (cname, fname, rdecl, RE, ' inside a larger generated model' if embedded else '',
                                                                                              (r['errors'] + [m for q in r['query_errors'] for m in q])[:2]),
                           {'kind': 'model', 'xml': items[2 * k + 1][0], 'queries': items[2 * k + 1][1], 'expect': 'accepted'})

    evaluate(mine, [], False)

    # the same cells spliced into larger generated models (other declarations, templates, processes around them)
    import gen_model as M
    from hypothesis import strategies as st
    stride = 9 if chk.tier == 'quick' else 2
    smc = ('query-probability', 'query-simulate')     # a host may declare handshake channels, which SMC queries refuse for reasons of their own

    def test(args):
        m, off = args
        host = cells.host_from_model(m, off)
        subset = [c for c in mine[off % stride::stride] if c[0] not in smc]
        with cells.embedding(host):
            evaluate(subset, ['embedded'], True)
        return None

    common.run_hypothesis(chk, stats, st.tuples(M.models(need_clean=True, max_templates=2), st.integers(0, 1000)), test, 3 if chk.tier == 'quick' else 20,
                          chk.seed * 1000 + wi, shrink=False)
    orc.close()
    return stats


def confirm(case):
    orc = oracle.Oracle(os.path.join(common.WORK, 'C11', 'confirm'), cpu_limit=30)
    try:
        run = cells.Runner(orc, common.Stats())
        if case.get('kind') == 'model':
            d = run.run_many([(case['xml'], case.get('queries'))])[0]
            what = 'model'
        else:
            C = contexts()
            d = run.run_many([assemble(C, case['context'], case['gextra'], case['E'])])[0]
            what = '%s %s%s' % (case['context'], case['gextra'], case['E'])
        rej = cells.rejected(d)
        if case['expect'] == 'rejected' and not rej:
            return ({}, 'accepted: ' + what)
        if case['expect'] == 'accepted' and rej:
            return ({}, 'rejected: %s %r' % (what, d['errors'][:2] + d['query_errors'][:1]))
        return None
    finally:
        orc.close()


def run(chk):
    chk.build('oracle')
    C, allc = build_cells()
    chk.rule = RULE % (len(C), len(DIRECT) + len(call_forms()))
    chk.assumptions = ['"rejected" = at least one error on the document or on the query (any message); the class histogram shows how many rejections carry a side-effect message',
                       'twins read constants so that contexts that also require compile-time computability (C13) stay legal']
    for p in sorted(glob.glob(os.path.join(common.VERIF, 'replays', 'C11', '*.json'))):
        rec = json.load(open(p))
        case = rec.get('case', rec)
        chk.stats.case('replay:' + os.path.basename(p), True, ['replay'])
        r = confirm(case)
        if r:
            chk.report(chk.stats, {'context': 'replay', 'form': os.path.basename(p), 'side': 'replay'}, r[1], case)
    chk.run_workers(worker)
    chk.exhaustive = True
    chk.explanation = 'exhaustive for the stated finite (context x write form) cell space; it says nothing about contexts or write forms outside that table'
    return chk.finish(confirm=confirm)


def replay(chk, path):
    chk.build('oracle')
    rec = json.load(open(path))
    case = rec.get('case', rec)
    r = confirm(case)
    if r:
        print('  ' + str(r[1])[:1500])
        print('VIOLATION property=C11 replay=%s' % path)
        return 1
    print('replay: no violation')
    return 0
