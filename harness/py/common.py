"""Shared driver plumbing: tiers/seeds, worker pool, statistics, known findings, evidence, violations."""
import collections
import hashlib
import json
import multiprocessing
import os
import subprocess
import sys
import time
import traceback

VERIF = os.path.dirname(os.path.dirname(os.path.dirname(os.path.abspath(__file__))))
REPO = os.environ.get('UTAP_SRC', '/repo')
WORK = os.environ.get('VERIF_WORK') or os.path.join(VERIF, '.work')    # scratch; mutation runs use their own so that they can run next to a sweep
JOBS = int(os.environ.get('VERIF_JOBS', '16'))


def h8(text):
    if isinstance(text, str):
        text = text.encode('utf-8', 'surrogateescape')
    return hashlib.sha1(text).digest()[:8]


class Stats:
    """Per-worker statistics; merged by the parent."""

    def __init__(self):
        self.evaluations = 0
        self.nontrivial = set()
        self.classes = collections.Counter()
        self.samples = []
        self.sample_by_class = {}
        self.known = collections.Counter()
        self.known_examples = {}
        self.inconclusive = 0
        self.violations = []  # list of dict(descriptor, what, case)
        self.extra = collections.Counter()
        self.notes = {}

    def case(self, canonical, nontrivial=True, classes=(), sample=None):
        """Record one executed case. canonical: text identifying the case (for distinct counting)."""
        self.evaluations += 1
        if nontrivial:
            self.nontrivial.add(h8(canonical))
        for c in classes:
            self.classes[c] += 1
            if sample is not None and c not in self.sample_by_class and len(self.sample_by_class) < 40:
                self.sample_by_class[c] = sample
        if sample is not None and len(self.samples) < 6 and (self.evaluations % 37 == 1):
            self.samples.append(sample)

    def merge(self, o):
        self.evaluations += o.evaluations
        self.nontrivial |= o.nontrivial
        self.classes.update(o.classes)
        for s in o.samples:
            if len(self.samples) < 12:
                self.samples.append(s)
        for k, v in o.sample_by_class.items():
            self.sample_by_class.setdefault(k, v)
        self.known.update(o.known)
        for k, v in o.known_examples.items():
            self.known_examples.setdefault(k, v)
        self.inconclusive += o.inconclusive
        self.violations.extend(o.violations)
        self.extra.update(o.extra)
        for k, v in o.notes.items():
            self.notes.setdefault(k, v)


def load_known():
    p = os.path.join(VERIF, 'known_findings.json')
    if not os.path.exists(p):
        return []
    return json.load(open(p)).get('findings', [])


def match_known(prop, descriptor, known=None):
    """descriptor: dict str->str. A finding matches iff same key set and every value is in the allowed list."""
    if known is None:
        known = load_known()
    for f in known:
        if f['property'] != prop:
            continue
        for pat in f['patterns']:
            if set(pat.keys()) != set(descriptor.keys()):
                continue
            if all(str(descriptor[k]) in pat[k] for k in pat):
                return f
    return None


class Check:
    def __init__(self, prop, tier, seed, level='exploration'):
        self.prop = prop
        self.tier = tier
        self.seed = seed
        self.level = level
        self.t0 = time.time()
        self.workdir = os.path.join(WORK, prop)
        os.makedirs(self.workdir, exist_ok=True)
        self.stats = Stats()
        self.known = load_known()
        self.rule = ''
        self.assumptions = []
        self.explanation = ''
        self.exhaustive = None
        self.coverage_extra = {}

    # ---- building
    def build(self, *targets):
        r = subprocess.run([os.path.join(VERIF, 'bin', 'build-harness.sh')] + list(targets))
        if r.returncode != 0:
            print('INFRA: build failed (exit %d); no verdict' % r.returncode)
            sys.exit(2)

    # ---- violations
    def report(self, stats, descriptor, what, case):
        """Called by oracles on a failing case: downgrade to known finding or record a violation.
        Returns True if it is a (new) violation, False if known."""
        f = match_known(self.prop, descriptor, self.known)
        if f is not None:
            stats.known[f['id']] += 1
            stats.known_examples.setdefault(f['id'], what)
            return False
        stats.violations.append({'descriptor': descriptor, 'what': what, 'case': case})
        return True

    def is_known(self, descriptor):
        return match_known(self.prop, descriptor, self.known)

    # ---- workers
    def run_workers(self, fn, nworkers=None, args=()):
        """fn(check, worker_index, nworkers, *args) -> Stats; run in forked processes."""
        nworkers = nworkers or JOBS
        if nworkers == 1:
            self.stats.merge(fn(self, 0, 1, *args))
            return
        ctx = multiprocessing.get_context('fork')
        q = ctx.Queue()

        def body(i):
            try:
                st = fn(self, i, nworkers, *args)
                q.put((i, 'ok', st))
            except BaseException:
                q.put((i, 'err', traceback.format_exc()))

        procs = [ctx.Process(target=body, args=(i,)) for i in range(nworkers)]
        for p in procs:
            p.start()
        got = 0
        failed = []
        while got < nworkers:
            try:
                i, status, payload = q.get(timeout=5)
            except Exception:
                if not any(p.is_alive() for p in procs) and q.empty():
                    break
                continue
            got += 1
            if status == 'ok':
                self.stats.merge(payload)
            else:
                failed.append(payload)
        for p in procs:
            p.join()
        if failed or got < nworkers:
            print('INFRA: %d worker(s) failed' % (len(failed) + nworkers - got))
            for f in failed[:3]:
                print(f)
            sys.exit(2)

    # ---- finishing
    def finish(self, confirm=None):
        """confirm(case) -> (descriptor, what) or None: re-executes a case; used 3x before printing VIOLATION."""
        st = self.stats
        viol = []
        seen = set()
        tried = {}
        for v in st.violations:
            key = json.dumps(v['descriptor'], sort_keys=True)
            if key in seen or tried.get(key, 0) >= 4:
                continue
            tried[key] = tried.get(key, 0) + 1
            if confirm is not None:
                ok = True
                for _ in range(3):
                    try:
                        r = confirm(v['case'])
                    except Exception:
                        r = None
                    if r is None:
                        ok = False
                        break
                if not ok:
                    st.inconclusive += 1
                    continue
            seen.add(key)
            viol.append(v)
        paths = []
        for v in viol:
            hh = hashlib.sha1(json.dumps(v['descriptor'], sort_keys=True).encode()).hexdigest()[:12]
            p = os.path.join(self.workdir, 'violation-%s.json' % hh)
            with open(p, 'w') as f:
                json.dump({'property': self.prop, 'descriptor': v['descriptor'], 'what': v['what'], 'case': v['case']}, f,
                          indent=1)
            paths.append(p)
        samples = list(st.samples)
        for c, s in sorted(st.sample_by_class.items()):
            if len(samples) >= 16:
                break
            samples.append({'class': c, 'case': s})
        if not samples:
            samples = ['(no sample recorded)']
        cov = {
            'evaluations': st.evaluations,
            'distinct_nontrivial': len(st.nontrivial),
            'rule': self.rule,
            'samples': samples,
            'classes': dict(sorted(st.classes.items())),
            'known_excluded': dict(st.known),
            'inconclusive': st.inconclusive,
        }
        if st.extra:
            cov['counters'] = dict(sorted(st.extra.items()))
        if st.notes:
            cov['notes'] = st.notes
        if self.explanation:
            cov['explanation'] = self.explanation
        if self.exhaustive is not None:
            cov['exhaustive'] = self.exhaustive
        cov.update(self.coverage_extra)
        ev = {
            'property_id': self.prop,
            'tier': self.tier,
            'seed': self.seed,
            'level': self.level,
            'coverage': cov,
            'assumptions': self.assumptions,
            'wall_s': round(time.time() - self.t0, 2),
            'violations': len(viol),
        }
        evdir = os.environ.get('VERIF_EVIDENCE_DIR', os.path.join(VERIF, 'evidence'))
        os.makedirs(evdir, exist_ok=True)
        with open(os.path.join(evdir, self.prop + '.json'), 'w') as f:
            json.dump(ev, f, indent=1, sort_keys=False)
            f.write('\n')
        for fid, n in sorted(st.known.items()):
            f = [x for x in self.known if x['id'] == fid][0]
            print('KNOWN-FINDING: property=%s %s [%s; %d case(s) this run, e.g. %s]' %
                  (self.prop, f['what'], fid, n, str(st.known_examples.get(fid, ''))[:200]))
        print('%s tier=%s seed=%d evaluations=%d distinct_nontrivial=%d known_excluded=%d inconclusive=%d wall=%.1fs' %
              (self.prop, self.tier, self.seed, st.evaluations, len(st.nontrivial), sum(st.known.values()), st.inconclusive,
               time.time() - self.t0))
        if viol:
            for v, p in zip(viol, paths):
                print('  what: %s' % v['what'][:600])
                print('  descriptor: %s' % json.dumps(v['descriptor'], sort_keys=True))
                print('VIOLATION property=%s replay=%s' % (self.prop, p))
            return 1
        return 0


def hyp_settings(max_examples, shrink=True, **kw):
    from hypothesis import settings, HealthCheck, Phase
    return settings(max_examples=max_examples, database=None, deadline=None, derandomize=False,
                    report_multiple_bugs=False, print_blob=False,
                    suppress_health_check=[HealthCheck.too_slow, HealthCheck.data_too_large, HealthCheck.filter_too_much],
                    phases=[Phase.generate, Phase.shrink] if shrink else [Phase.generate], **kw)


class Failure(AssertionError):
    """Raised inside a hypothesis test to make it shrink; carries the violation."""

    def __init__(self, descriptor, what, case):
        super().__init__(what)
        self.descriptor = descriptor
        self.what = what
        self.case = case


def run_hypothesis(check, stats, strategy, test, max_examples, seed, shrink=True):
    """Run test(x) over strategy. test returns None (holds / known) or (descriptor, what, case) for a NEW violation
    (i.e. after consulting check.is_known). The shrunk violation is recorded in stats."""
    from hypothesis import given, seed as hseed
    import hypothesis.errors
    import hypothesis.internal.conjecture.engine as _eng
    _eng.BUFFER_SIZE = 1 << 18  # model generators draw a lot; the 8 KiB default silently discards large cases
    _eng.MAX_SHRINKING_SECONDS = 120
    holder = {}
    counter = {'n': 0}

    @hyp_settings(max_examples, shrink=shrink)
    @hseed(seed)
    @given(strategy)
    def t(x):
        counter['n'] += 1
        r = test(x)
        if r is not None:
            holder['v'] = r
            raise Failure(*r)

    try:
        t()
    except Failure:
        d, w, c = holder['v']
        stats.violations.append({'descriptor': d, 'what': w, 'case': c})
    except hypothesis.errors.Flaky as e:
        # the harness is deterministic by construction; a flaky report is counted, not a verdict
        stats.inconclusive += 1
        stats.notes['flaky'] = str(e)[:300]
    stats.extra['hypothesis_examples_run'] += counter['n']
    if counter['n'] < max_examples and 'v' not in holder:
        stats.notes['short_run'] = 'hypothesis executed %d of %d requested examples' % (counter['n'], max_examples)
