"""C13: sizes, bounds, initialisers and value arguments must be compile-time computable."""
import glob
import json
import os

import cells
import common
import oracle

LEVEL = 'exploration'

# the variable at the end of every dependence chain: X = 'mv' (mutable) in the W model, 'kv' (constant) in its twin
BASE = ('int mv = 2; const int kv = 2; int ma[3] = {1,2,3}; const int ka[3] = {1,2,3}; struct { int f; int g; } ms = {1,2}; '
        'const struct { int f; int g; } ks = {1,2}; bool mb = true; const bool kb = true; int f1(int a) { return a; } ')
SUB = {'mv': 'kv', 'ma': 'ka', 'ms': 'ks', 'mb': 'kb'}


def twin(text):
    import re
    return re.sub(r'\b(mv|ma|ms|mb)\b', lambda m: SUB[m.group(1)], text)


# ---- dependence chains: (name, global declarations to add, expression) written with the mutable names
def chains():
    C = [('direct', '', 'mv'), ('direct-arithmetic', '', 'mv * 2 - 1'), ('array-element', '', 'ma[0]'), ('struct-field', '', 'ms.f'),
         ('const-array-indexed-by-variable', '', 'ka[mv]'), ('inline-if-condition', '', 'mb ? 1 : 2'), ('inline-if-branch', '', 'kb ? mv : 1'),
         ('builtin-argument', '', 'abs(mv)'), ('call-argument-of-pure-function', '', 'f1(mv)'),
         ('quantifier-body', '', 'sum (k : int[0,2]) (k + mv)'), ('quantifier-range', '', 'sum (k : int[0,mv]) k')]
    bodies = {
        'return': '{ return mv; }',
        'if-condition': '{ if (mv > 0) return 1; return 0; }',
        'while-condition': '{ int l = 0; while (l < mv) l++; return l; }',
        'for-bound': '{ int l = 0; int k; for (k = 0; k < mv; k++) l += k; return l; }',
        'local-initialiser': '{ int l = mv; return l; }',
        'assignment-rhs': '{ int l; l = mv + 1; return l; }',
        'array-index': '{ return ka[mv]; }',
        'call-argument': '{ return f1(mv); }',
        'iteration-range': '{ int l = 0; for (k : int[0,mv]) l += k; return l; }',
        'nested-block': '{ int l = 0; { { l = ma[1]; } } return l; }',
        'inline-if': '{ return mb ? 1 : 0; }',
        'quantifier': '{ return sum (k : int[0,2]) (k * ms.g); }',
        'local-array-initialiser': '{ int a[2] = {mv, 1}; return a[0]; }',
        'local-const-array-initialiser': '{ const int a[2] = {1, mv}; return a[1]; }',
        'local-2d-array-initialiser': '{ int a[2][2] = {{1, 2}, {ma[0], 4}}; return a[1][0]; }',
        'local-struct-initialiser': '{ struct { int f; int g; } s = {mv, 1}; return s.f; }',
        'local-array-of-struct-initialiser': '{ struct { int f; int g; } s[1] = {{1, ms.g}}; return s[0].g; }',
        'local-array-initialiser-in-nested-block': '{ int l = 0; { { int a[1] = {mv}; l = a[0]; } } return l; }',
        'local-initialiser-in-loop-body': '{ int l = 0; int k; for (k = 0; k < 2; k++) { int t = mv; l += t; } return l; }',
        'local-array-initialiser-in-iteration-body': '{ int l = 0; for (k : int[0,1]) { int a[1] = {mv}; l += a[0]; } return l; }',
        'local-typedef-array-initialiser': '{ typedef int LA[2]; LA a = {mv, 1}; return a[0]; }',
        'do-while-condition': '{ int l = 0; do { l++; } while (l < mv); return l; }',
        'for-init': '{ int l; int k = 0; for (l = mv; k < 2; k++) { } return l; }',
        'for-step': '{ int l = 0; int k; for (k = 0; k < 2; k += mv) { l++; } return l; }',
        'else-branch': '{ if (kb) return 1; else return mv; }',
        'assert-expression': '{ assert(mv > 0); return 1; }',
    }
    for bn, body in bodies.items():
        C.append(('function:' + bn, 'int rf() %s ' % body, 'rf()'))
    for depth in (2, 3, 4):
        d = 'int rf0() { return mv; } '
        for k in range(1, depth):
            d += ('int rf%d() { return rf%d(); } ' % (k, k - 1)) if k % 2 else ('int rf%d() { int l = 0; if (kb) l = rf%d(); return l; } ' % (k, k - 1))
        C.append(('function-chain:%d' % depth, d, 'rf%d()' % (depth - 1)))
    C.append(('function-reference-parameter', 'int rr(const int &r) { return r; } ', 'rr(mv)'))
    C.append(('function-by-value-parameter-of-variable', '', 'f1(ma[2])'))
    return C


# ---- compile-time contexts: name -> (function(E) -> model kwargs, restrict to plain-variable chains?)
def contexts():
    C = {}
    g = lambda fmt: (lambda E: dict(gpost=fmt % E))
    t = lambda fmt: (lambda E: dict(tdecl=fmt % E))
    C['global-array-size'] = g('int ar[(%s) + 1]; ')
    C['global-range-upper-bound'] = g('int[0, (%s) + 1] rb; ')
    C['global-range-lower-bound'] = g('int[(%s) - 5, 10] rb; ')
    C['global-scalar-set-size'] = g('scalar[(%s) + 1] sv; ')
    C['typedef-range-used-by-variable'] = g('typedef int[0, (%s) + 1] TT; TT tv; ')
    C['typedef-array-used-by-variable'] = g('typedef int TA[(%s) + 1]; TA ta; ')
    C['typedef-scalar-used-as-array-index'] = g('typedef scalar[(%s) + 1] TS; int byS[TS]; ')
    C['struct-field-array-size'] = g('struct { int f[(%s) + 1]; } sf; ')
    C['second-dimension-array-size'] = g('int aa[2][(%s) + 1]; ')
    C['template-array-size'] = t('int ar[(%s) + 1]; ')
    C['template-range-bound'] = t('int[0, (%s) + 1] rb; ')
    C['function-local-array-size'] = g('void h() { int la[(%s) + 1]; } ')
    C['function-local-range-bound'] = g('void h() { int[0, (%s) + 1] lb; } ')
    C['function-parameter-range-bound'] = g('void h(int[0, (%s) + 1] pb) { } ')
    C['global-initialiser'] = g('int g = %s; ')
    C['global-const-initialiser'] = g('const int g = %s; ')
    C['global-array-initialiser-element'] = g('int ga[2] = { 1, %s }; ')
    C['global-struct-initialiser-field'] = g('struct { int f; int g; } gs = { 1, %s }; ')
    C['template-initialiser'] = t('int tl = %s; ')
    C['template-const-initialiser'] = t('const int tl = %s; ')
    C['by-value-template-argument'] = lambda E: dict(tparams='const int pp', inst='Q = P(%s);' % E, system='system Q;')
    C['by-value-template-argument-in-system-block'] = lambda E: dict(tparams='const int pp', system='Q = P(%s); system Q;' % E)
    C['bounded-by-value-template-argument'] = lambda E: dict(tparams='const int[0,9] pp', inst='Q = P(%s);' % E, system='system Q;')
    C['const-reference-template-argument'] = lambda E: dict(tparams='const int &pp', inst='Q = P(%s);' % E, system='system Q;')
    C['select-range-bound'] = lambda E: dict(select='s : int[0, (%s) + 1]' % E)
    C['iteration-range-bound'] = g('void h() { for (k : int[0, (%s) + 1]) { } } ')
    C['quantifier-range-bound-in-guard'] = lambda E: dict(guard='forall (k : int[0, (%s) + 1]) k >= 0' % E)
    return C


def special_cells():
    """free process parameters and template parameters in sizes: (name, form, W kwargs, [twin kwargs...])"""
    out = []
    P = 'const int[0,2] fp'
    out.append(('free-process-parameter', 'array-size', dict(tparams=P, tdecl='int ar[fp + 1]; ', system='system P;'),
                [dict(tparams=P, tdecl='int ar[fp + 1]; ', inst='Q = P(1);', system='system Q;'),
                 dict(tparams=P, tdecl='int tl; ', guard='fp >= 0', system='system P;')]))
    out.append(('free-process-parameter', 'array-size-through-partial-instantiation',
                dict(tparams=P, tdecl='int ar[fp + 1]; ', inst='Q(const int[0,2] q) = P(q);', system='system Q;'),
                [dict(tparams=P, tdecl='int ar[fp + 1]; ', inst='Q(const int[0,2] q) = P(q); R = Q(2);', system='system R;')]))
    out.append(('free-process-parameter', 'array-size-in-local-function',
                dict(tparams=P, tdecl='void h() { int la[fp + 1]; } ', system='system P;'),
                [dict(tparams=P, tdecl='void h() { int la[fp + 1]; } ', inst='Q = P(2);', system='system Q;')]))
    out.append(('free-process-parameter', 'array-size-through-typedef',
                dict(tparams=P, tdecl='typedef int TA[fp + 1]; TA ta; ', system='system P;'),
                [dict(tparams=P, tdecl='typedef int TA[fp + 1]; TA ta; ', inst='Q = P(0);', system='system Q;')]))
    out.append(('free-process-parameter', 'second-of-two-parameters',
                dict(tparams='const int[0,1] fa, const int[0,2] fp', tdecl='int ar[fp + 1]; ', inst='Q(const int[0,2] q) = P(1, q);', system='system Q;'),
                [dict(tparams='const int[0,1] fa, const int[0,2] fp', tdecl='int ar[fp + 1]; ', inst='Q(const int[0,1] q) = P(q, 2);', system='system Q;')]))
    # free parameter reaching an array size through 0..3 constant initialisers, in several array-size positions
    for hops in (0, 1, 2, 3):
        chain = ''
        last = 'fp'
        for k in range(hops):
            chain += 'const int N%d = %s + 1; ' % (k, last)
            last = 'N%d' % k
        for pname, decl in (('template-array', 'int ar[%s + 1]; '), ('struct-field-array', 'struct { int f[%s + 1]; } sf; '),
                            ('function-local-array', 'void h() { int la[%s + 1]; } '), ('second-dimension', 'int aa[2][%s + 1]; '),
                            ('typedef-array', 'typedef int TA[%s + 1]; TA ta; '), ('array-of-clocks', 'clock xs[%s + 1]; '),
                            ('index-range-type', 'int ir[int[0, %s]]; ')):
            out.append(('free-process-parameter', '%s-through-%d-initialisers' % (pname, hops),
                        dict(tparams=P, tdecl=chain + decl % last, system='system P;'),
                        [dict(tparams=P, tdecl=chain + decl % last, inst='Q = P(1);', system='system Q;')]))
        out.append(('free-process-parameter', 'forwarded-through-partial-instantiation-through-%d-initialisers' % hops,
                    dict(tparams=P, tdecl=chain + 'int ar[%s + 1]; ' % last, inst='Q(const int[0,2] q) = P(q);', system='system Q;'),
                    [dict(tparams=P, tdecl=chain + 'int ar[%s + 1]; ' % last, inst='Q(const int[0,2] q) = P(q); R = Q(1);', system='system R;')]))
    # the free parameter forwarded through 2 and 3 partial instantiations (directly and inside an expression)
    for depth in (2, 3):
        for form, arg in (('direct', '%s'), ('expression', '%s + 0')):
            inst = 'Q1(const int[0,2] q1) = P(%s); ' % (arg % 'q1')
            last = 'Q1'
            for k in range(2, depth + 1):
                inst += 'Q%d(const int[0,2] q%d) = Q%d(%s); ' % (k, k, k - 1, arg % ('q%d' % k))
                last = 'Q%d' % k
            for pname, decl in (('template-array', 'int ar[fp + 1]; '), ('array-through-initialiser', 'const int N0 = fp + 1; int ar[N0]; '), ('function-local-array', 'void h() { int la[fp + 1]; } ')):
                out.append(('free-process-parameter', '%s-forwarded-through-%d-partial-instantiations-%s' % (pname, depth, form),
                            dict(tparams=P, tdecl=decl, inst=inst, system='system %s;' % last),
                            [dict(tparams=P, tdecl=decl, inst=inst + 'R = %s(1);' % last, system='system R;')]))
    # a by-value parameter must be const to be usable in a size; its argument must be computable
    out.append(('template-parameter-in-size', 'bound-to-variable', dict(tparams='const int pp', tdecl='int ar[pp + 1]; ', inst='Q = P(mv);', system='system Q;'),
                [dict(tparams='const int pp', tdecl='int ar[pp + 1]; ', inst='Q = P(kv);', system='system Q;')]))
    out.append(('template-parameter-in-size', 'non-const-by-value-parameter', dict(tparams='int pp', tdecl='int ar[pp + 1]; ', inst='Q = P(2);', system='system Q;'),
                [dict(tparams='const int pp', tdecl='int ar[pp + 1]; ', inst='Q = P(2);', system='system Q;')]))
    out.append(('template-parameter-in-size', 'reference-parameter', dict(tparams='int &pp', tdecl='int ar[pp + 1]; ', inst='Q = P(mv);', system='system Q;'),
                [dict(tparams='const int pp', tdecl='int ar[pp + 1]; ', inst='Q = P(kv + 1);', system='system Q;')]))
    out.append(('template-parameter-in-size', 'range-bound-bound-to-function-of-variable',
                dict(gpost='int rf() { return mv; } ', tparams='const int pp', tdecl='int[0, pp] rb; ', inst='Q = P(rf());', system='system Q;'),
                [dict(gpost='int rf() { return kv; } ', tparams='const int pp', tdecl='int[0, pp] rb; ', inst='Q = P(rf());', system='system Q;')]))
    out.append(('template-parameter-in-size', 'template-initialiser-from-non-const-parameter', dict(tparams='int pp', tdecl='int tl = pp; ', inst='Q = P(2);', system='system Q;'),
                [dict(tparams='const int pp', tdecl='int tl = pp; ', inst='Q = P(2);', system='system Q;')]))
    return out


RULE = ('cell enumeration: %d compile-time contexts (array size globally / second dimension / in a struct field / in a template / in a '
        'function / through a typedef; integer range lower and upper bounds globally / in a template / in a function / of a '
        'function parameter / through a typedef; scalar-set sizes used by a variable or as an array index type; global, '
        'global const, array-element, struct-field, template and template-const initialisers; arguments of const by-value, '
        'bounded by-value and const-reference template parameters, in the instantiation and in the system block; select, '
        'iteration and quantifier range bounds) x %d dependence chains to a mutable variable (direct, arithmetic, array '
        'element, struct field, const array indexed by a variable, inline-if condition / branch, builtin and pure-function '
        'arguments, quantifier body / range, functions reading it in a return, if / while / for condition, local initialiser, '
        'assignment, array index, call argument, iteration range, nested block, inline-if, quantifier; call chains of depth '
        '2..4; const-reference parameter), plus %d special cells about free process parameters and template parameters in '
        'sizes. Twin: the same model with the variable at the end of the chain made const. Oracle: the model depending on the '
        'mutable variable is rejected (>= 1 error), the twin is accepted (no error). A stride of the cells (quick: every 9th, thorough: every 2nd) is additionally spliced into larger generated models (hosts from gen_model.py with all identifiers renamed) and judged the same way. Non-trivial: every cell; distinct = (context, chain, host).')


def assemble(kw, gextra=''):
    kw = dict(kw)
    gpost = kw.pop('gpost', '')
    return cells.model(gdecl=BASE + gextra + gpost, **kw)


def build_cells():
    out = []
    C = contexts()
    for cname, cf in C.items():
        for (chname, gdecl, E) in chains():
            if cname == 'const-reference-template-argument' and not E.replace('_', '').isalnum() and not E.startswith(('ma[', 'ms.')):
                continue   # a const reference parameter is bound to an object, not to a computed value
            out.append((cname, chname, assemble(cf(E), gdecl), [assemble(cf(twin(E)), twin(gdecl))]))
    for (cname, form, wkw, twins) in special_cells():
        out.append((cname, form, assemble(wkw), [assemble(t) for t in twins]))
    return out


def worker(chk, wi, nw):
    stats = common.Stats()
    orc = oracle.Oracle(os.path.join(chk.workdir, 'w%d' % wi), cpu_limit=60)
    run = cells.Runner(orc, stats)
    mine_ids = [k for k, c in enumerate(build_cells()) if k % nw == wi]

    def evaluate(ids, embedded):
        allc = build_cells()          # rebuilt so that cells.model() sees the host that is currently set
        subset = [allc[k] for k in ids]
        items = []
        for (cname, form, W, Rs) in subset:
            items.append((W, None))
            items += [(r, None) for r in Rs]
        res = run.run_many(items)
        pos = 0
        tag = '@embedded' if embedded else ''
        for (cname, form, W, Rs) in subset:
            w = res[pos]
            pos += 1
            rs = res[pos:pos + len(Rs)]
            pos += len(Rs)
            ct = any(('compile_time' in m or 'Incompatible_argument' in m or 'Free_process' in m or 'arameter' in m) for m in w['errors'])
            stats.case(cname + '|' + form + ('|' + W if embedded else ''), nontrivial=True,
                       classes=['context:' + cname, 'chain:' + form.split(':')[0], 'W:' + ('rejected' if cells.rejected(w) else 'ACCEPTED'),
                                'W-message:' + ('computability/argument' if ct else 'other')] + (['embedded'] if embedded else []),
                       sample={'context': cname, 'chain': form, 'embedded': embedded, 'W_errors': w['errors'][:2]})
            if w['crash'] or any(r['crash'] for r in rs):
                stats.extra['crashes_seen_(C01)'] += 1
                continue
            if not cells.rejected(w):
                chk.report(stats, {'context': cname, 'chain': form, 'side': 'dependence-accepted' + tag},
                           'context %s accepts a value that depends on a mutable variable through %s%s' % (cname, form, ' inside a larger generated model' if embedded else ''),
                           {'kind': 'model', 'xml': W, 'expect': 'rejected'})
            for ti, (r, R) in enumerate(zip(rs, Rs)):
                if cells.rejected(r):
                    chk.report(stats, {'context': cname, 'chain': form, 'side': 'twin-rejected' + tag},
                               'context %s rejects the constant twin #%d of chain %s%s: %r' % (cname, ti, form, ' inside a larger generated model' if embedded else '', r['errors'][:2]),
                               {'kind': 'model', 'xml': R, 'expect': 'accepted'})

    evaluate(mine_ids, False)

    # the same cells spliced into larger generated models
    import gen_model as M
    from hypothesis import strategies as st
    stride = 9 if chk.tier == 'quick' else 2

    def test(args):
        m, off = args
        host = cells.host_from_model(m, off)
        with cells.embedding(host):
            evaluate(mine_ids[off % stride::stride], True)
        return None

    common.run_hypothesis(chk, stats, st.tuples(M.models(need_clean=True, max_templates=2), st.integers(0, 1000)), test, 3 if chk.tier == 'quick' else 20,
                          chk.seed * 1000 + wi, shrink=False)
    orc.close()
    return stats


def confirm(case):
    orc = oracle.Oracle(os.path.join(common.WORK, 'C13', 'confirm'), cpu_limit=30)
    try:
        d = cells.Runner(orc, common.Stats()).run_many([(case['xml'], None)])[0]
        rej = cells.rejected(d)
        if case['expect'] == 'rejected' and not rej:
            return ({}, 'accepted')
        if case['expect'] == 'accepted' and rej:
            return ({}, 'rejected: %r' % d['errors'][:2])
        return None
    finally:
        orc.close()


def run(chk):
    chk.build('oracle')
    chk.rule = RULE % (len(contexts()), len(chains()), len(special_cells()))
    chk.assumptions = ['types are always used by a variable ("of a used type"): an unused typedef with a mutable bound is outside the statement',
                       'a by-value template parameter has to be declared const to be compile-time computable; the twins use const parameters']
    for p in sorted(glob.glob(os.path.join(common.VERIF, 'replays', 'C13', '*.json'))):
        rec = json.load(open(p))
        case = rec.get('case', rec)
        chk.stats.case('replay:' + os.path.basename(p), True, ['replay'])
        r = confirm(case)
        if r:
            chk.report(chk.stats, {'context': 'replay', 'chain': os.path.basename(p), 'side': 'replay'}, r[1], case)
    chk.run_workers(worker)
    chk.exhaustive = True
    chk.explanation = 'exhaustive for the stated finite (context x dependence chain) cell table; it says nothing about contexts or chains outside that table'
    return chk.finish(confirm=confirm)


def replay(chk, path):
    chk.build('oracle')
    rec = json.load(open(path))
    case = rec.get('case', rec)
    r = confirm(case)
    if r:
        print('  ' + str(r[1])[:1500])
        print('VIOLATION property=C13 replay=%s' % path)
        return 1
    print('replay: no violation')
    return 0
