"""C16: a fault in one text block does not disturb the rest of the document (fault enumeration)."""
import glob
import json
import os
import random
import re

from hypothesis import strategies as st

import common
import faults as F
import gen_model as M
import oracle
import tokenizer as T

LEVEL = 'fault_enumeration'
RULE = ('accepted generated models (gen_model.py) with layout noise; part A: for every non-declaring label (guard, invariant, '
        'synchronisation, assignment, probability, exponentialrate) x evenly spread token positions (quick: up to 8, thorough: '
        'up to 40) x every fault kind of faults.py (undeclared identifier, dropped token, unbalanced open/close bracket, stray '
        'token, type error, side effect, unterminated comment; positions fall inside quantifier bodies, call argument lists and '
        'indices whenever the label has them) the faulty document built by DocumentBuilder alone must equal the fault-free one '
        'with that one label masked on both sides (complete canonical dump: declarations, every template, location, edge, label, '
        'select frame, instance, process, priorities), every diagnostic that the fault-free run does not have must carry the '
        'path of the faulted block, and when the fault is semantic (the builder reports nothing) the same holds for the document '
        'after TypeChecker/FeatureChecker; part B: for every declaration block (global and template-local) x declaration index '
        'i x {truncation at a token inside declaration i, deletion of a token inside declaration i, stray token, unbalanced '
        'bracket} all variables, functions and typedefs declared by declarations 0..i-1 must be present, in order, with '
        'unchanged type, initialiser and body; part C: fifteen hand-built models in which a guard, an invariant or an update carries (nested) forall / exists / sum quantifiers whose binder names - and the select binder of the same edge - are also global variables used by the labels that follow; every token position x {dropped token, unbalanced bracket, stray token, undeclared identifier, unterminated comment, truncation} is enumerated and compared as in part A (a scope left open by the faulted label changes how the following labels bind). A mutation that produces no diagnostic is not a fault (counted, skipped). '
        'Non-trivial: the faulted label is followed by a further label, edge, location or template (something a leaked fragment '
        'or frame could corrupt) / the faulted declaration has at least one predecessor; distinct = (model, block, token, fault).')

FIELD = {'invariant': 'invariant', 'exponentialrate': 'exp_rate', 'guard': 'guard', 'synchronisation': 'sync', 'assignment': 'assign',
         'probability': 'prob'}
PATH_RE = re.compile(r'^/nta/template\[(\d+)\]/(location|transition)\[(\d+)\]/label\[(\d+)\]$')


def mask(doc, path, kind):
    """replace the faulted label's field in a doc dump by a marker (in place); returns False if the path cannot be mapped"""
    m = PATH_RE.match(path)
    if not m:
        return False
    ti, what, ei = int(m.group(1)) - 1, m.group(2), int(m.group(3)) - 1
    try:
        el = doc['templates'][ti]['locations' if what == 'location' else 'edges'][ei]
    except (IndexError, KeyError):
        return False
    el[FIELD[kind]] = '<masked>'
    return True


def strip_volatile(doc):
    doc = json.loads(json.dumps(doc))
    return doc


def diag_key(d):
    return (d['msg'], d['path'])


def compare_label_case(clean, faulty, path, kind, mode):
    """clean/faulty: step answers with doc+diag. -> None or (rule, what)"""
    a = json.loads(json.dumps(clean['doc']))
    b = json.loads(json.dumps(faulty['doc']))
    if not mask(a, path, kind) or not mask(b, path, kind):
        return ('unmappable', 'cannot map %s into the document dump' % path)
    d = M.diff(a, b)
    if d:
        return ('doc:' + mode + ':' + re.sub(r'\[\d+\]', '', d[0]), 'fault in %s (%s): %s differs: fault-free %r, faulty %r' % (path, kind, d[0], str(d[1])[:300], str(d[2])[:300]))
    base = {}
    for lst in (clean['errors'], clean['warnings']):
        for x in lst:
            base[diag_key(x)] = base.get(diag_key(x), 0) + 1
    for sev, lst in (('error', faulty['errors']), ('warning', faulty['warnings'])):
        for x in lst:
            k = diag_key(x)
            if base.get(k, 0) > 0:
                base[k] -= 1
                continue
            if x['path'] != path:
                return ('attribution:' + mode + ':' + sev, 'fault in %s (%s): %s %r is attributed to %r' % (path, kind, sev, x['msg'], x['path']))
    return None


def decl_entries(doc, scope, names):
    """(variables, functions, typedef symbols) of a declarations dump restricted to names, in order"""
    d = doc['globals'] if scope is None else doc['templates'][scope]['decls']
    vs = [(v['name'], v['type'], v['init']) for v in d['variables'] if v['name'] in names]
    fs = [(f['name'], f['type'], f.get('body'), json.dumps(f.get('params')), json.dumps(f.get('locals'))) for f in d['functions'] if f['name'] in names]
    ts = [(s['name'], s['kind'], s['type']) for s in d['symbols'] if s['name'] in names]
    return vs, fs, ts


# ---------------------------------------------------------------- part C: quantifier labels in models whose names collide
def collision_models():
    """(name, xml with the quantified label, block path, label kind): the binder names k, j and the select binder s are also globals
    that later labels use, so a scope left open by the faulted label is visible in what is parsed next"""
    import cells
    out = []
    quants = ['forall (k : int[0,2]) a[k] > 0', 'exists (j : int[0,2]) forall (k : int[0,1]) a[k] > j', 'b && (forall (k : int[0,2]) a[k] >= 0) && k < 3',
              '(sum (k : int[0,2]) a[k]) > 1', 'forall (k : int[0,1]) exists (j : int[0,1]) forall (s : int[0,1]) a[k] + a[j] > s']
    later = '<transition><source ref="id1"/><target ref="id0"/><label kind="guard">k == 1 &amp;&amp; s == 2 &amp;&amp; j == 0</label><label kind="assignment">k = 2, j = s</label></transition>'
    for qi, q in enumerate(quants):
        g = 'int k; int s; int j; int a[3]; bool b; '
        out.append(('guard:%d' % qi, cells.model(gdecl=g, select='s : int[0,1]', guard=q, assign='k = s, j = k', inv2='k <= 5 && j >= 0', extra_edges=later),
                    '/nta/template[1]/transition[1]/label[2]', 'guard'))
        out.append(('invariant:%d' % qi, cells.model(gdecl=g, inv=q, select='s : int[0,1]', guard='k >= 0', assign='k = s, j = k', inv2='k <= 5 && j >= 0', extra_edges=later),
                    '/nta/template[1]/location[1]/label[1]', 'invariant'))
        out.append(('assignment:%d' % qi, cells.model(gdecl=g, select='s : int[0,1]', guard='k >= 0', assign='b = ' + q, inv2='k <= 5 && j >= 0', extra_edges=later),
                    '/nta/template[1]/transition[1]/label[3]', 'assignment'))
    return out


def in_quantifier_body(text, ti):
    """is token index ti (non-space tokens) behind the header of a forall / exists / sum in this label?"""
    toks = T.tokens(text)
    for k, tk in enumerate(toks[:ti + 1]):
        if tk[1] in ('forall', 'exists', 'sum'):
            # header: kw ( id : type )  -> find the matching ')' of the header
            depth = 0
            for m in range(k + 1, len(toks)):
                if toks[m][1] == '(':
                    depth += 1
                elif toks[m][1] == ')':
                    depth -= 1
                    if depth == 0:
                        if ti > m:
                            return True
                        break
    return False


def worker(chk, wi, nw):
    stats = common.Stats()
    orc = oracle.Oracle(os.path.join(chk.workdir, 'w%d' % wi), cpu_limit=30)
    max_pos = 8 if chk.tier == 'quick' else 40

    def run(xml, builder, dump):
        r = orc.request([dict(entry='xml-buffer', builder=builder, newxta=1, input=xml, dump=dump)])
        if 'crash' in r:
            return None
        return r['steps'][0]

    def viol(v, case, bkind, fault):
        rule, what = v
        d = {'rule': rule, 'block': bkind, 'fault': fault}
        if chk.is_known(d):
            chk.report(stats, d, what, case)
            return None
        return (d, what, case)

    def test(args):
        m, seed = args
        rnd = random.Random(seed)
        xml0 = m.xml()
        doc = F.Doc(xml0)
        noisy = {}
        flags = {}
        # declaration blocks are rebuilt from their declarations so that declaration boundaries are known
        decl_parts = {}
        gi = 0
        for b in doc.blocks:
            t = doc.text_of(b)
            mode = rnd.choice(['plain', 'noise', 'noise', 'crlf', 'lead'])
            lead = rnd.choice(['', '\n', '\n\n  ', '\t']) if mode in ('lead', 'noise') else ''
            ch = (lambda i, n: rnd.choice([None, None] + list(range(n)))) if mode != 'plain' else (lambda i, n: None)
            if b['kind'] in ('declaration', 'local-declaration'):
                mt = re.match(r'^/nta/template\[(\d+)\]/declaration$', b['path'])
                decls = m.gdecls if b['kind'] == 'declaration' else m.templates[int(mt.group(1)) - 1].decls
                parts = [F.add_noise(d.text, ch, crlf=(mode == 'crlf')) for d in decls]
                decl_parts[b['path']] = (parts, decls, None if b['kind'] == 'declaration' else int(mt.group(1)) - 1, lead)
                noisy[b['path']] = lead + '\n'.join(parts)
            else:
                noisy[b['path']] = t if mode == 'plain' else F.add_noise(t, ch, crlf=(mode == 'crlf'), lead=lead)
            flags[b['path']] = mode
        base = doc.serialize(noisy)
        c_b = run(base, 'builder-only', 'doc,diag')
        if c_b is None or c_b['errors'] or c_b.get('exc'):
            stats.extra['models_not_accepted_after_noise'] += 1
            return None
        c_d = run(base, 'document', 'doc,diag')
        if c_d is None or c_d['errors'] or c_d.get('exc'):
            stats.extra['models_not_accepted_after_noise'] += 1
            return None
        stats.extra['models'] += 1
        nblocks = len(doc.blocks)
        for bi, b in enumerate(doc.blocks):
            text = noisy[b['path']]
            kind = b['kind']
            if kind in F.NONDECL_LABELS:
                toks = T.tokens(text)
                n = len(toks)
                if n == 0:
                    continue
                positions = sorted(set(int(i * (n - 1) / max(1, max_pos - 1)) for i in range(max_pos))) if n > max_pos else list(range(n))
                # something follows this label inside the document?
                follows = any(x['path'].startswith('/nta/template') for x in doc.blocks[bi + 1:])
                for ti in positions:
                    for fault in F.FAULT_KINDS:
                        if fault == 'side-effect' and kind not in ('guard', 'invariant', 'synchronisation', 'probability', 'exponentialrate'):
                            continue
                        res = F.apply_fault(text, fault, ti, variant=rnd.randrange(100))
                        if res is None:
                            continue
                        text_mut, info = res
                        ov = dict(noisy)
                        ov[b['path']] = text_mut
                        xml_mut = doc.serialize(ov)
                        f_b = run(xml_mut, 'builder-only', 'doc,diag')
                        if f_b is None:
                            stats.extra['crashes_seen_(C01)'] += 1
                            continue
                        if f_b.get('exc'):
                            stats.extra['exceptions_seen'] += 1
                            continue
                        semantic = not f_b['errors']
                        f_d = None
                        if semantic:
                            f_d = run(xml_mut, 'document', 'doc,diag')
                            if f_d is None or f_d.get('exc'):
                                stats.extra['crashes_or_exceptions_in_static_analysis'] += 1
                                continue
                            if not f_d['errors']:
                                stats.evaluations += 1
                                stats.extra['mutation_was_not_a_fault'] += 1
                                continue
                        cls = ['label:' + kind, 'fault:' + fault, 'noise:' + flags[b['path']], 'stage:' + ('static-analysis' if semantic else 'builder')]
                        if re.search(r'\b(forall|exists|sum)\b', text):
                            cls.append('label-has-quantifier')
                        stats.case('%s|%s|%d|%s|%d' % (base, b['path'], ti, fault, seed), nontrivial=follows, classes=cls,
                                   sample={'block': b['path'], 'kind': kind, 'fault': fault, 'text': text_mut[:160],
                                           'errors': [(d['msg'], d['path']) for d in (f_d or f_b)['errors']][:2]})
                        case = {'kind': 'label', 'base': base, 'xml': xml_mut, 'path': b['path'], 'label': kind}
                        v = compare_label_case(c_b, f_b, b['path'], kind, 'builder')
                        if v is None and semantic:
                            v = compare_label_case(c_d, f_d, b['path'], kind, 'static-analysis')
                        if v:
                            out = viol(v, case, kind, fault)
                            if out:
                                return out
            elif kind in ('declaration', 'local-declaration') and b['path'] in decl_parts:
                parts, decls, scope, lead = decl_parts[b['path']]
                for di in range(len(parts)):
                    names = set()
                    for d in decls[:di]:
                        names |= {v[0] for v in d.vars} | {f[0] for f in d.funcs} | {t[0] for t in d.typedefs}
                    toks = T.tokens(parts[di])
                    if not toks:
                        continue
                    want = decl_entries(c_b['doc'], scope, names)
                    tis = sorted(set([0, len(toks) // 2, len(toks) - 1] + [rnd.randrange(len(toks)) for _ in range(2 if chk.tier == 'quick' else 6)]))
                    for ti in tis:
                        for fault in ('truncate', 'delete-token', 'stray-token', 'unbalanced-open', 'unbalanced-close', 'unterminated-comment'):
                            tk = toks[ti]
                            if fault == 'truncate':
                                mutd = parts[di][:tk[2]]
                                new_parts = parts[:di] + [mutd]
                            elif fault == 'delete-token':
                                mutd = parts[di][:tk[2]] + parts[di][tk[3]:]
                                new_parts = parts[:di] + [mutd] + parts[di + 1:]
                            else:
                                res = F.apply_fault(parts[di], fault, ti, variant=rnd.randrange(100))
                                if res is None:
                                    continue
                                new_parts = parts[:di] + [res[0]] + parts[di + 1:]
                            ov = dict(noisy)
                            ov[b['path']] = lead + '\n'.join(new_parts)
                            xml_mut = doc.serialize(ov)
                            f_b = run(xml_mut, 'builder-only', 'doc,diag')
                            if f_b is None:
                                stats.extra['crashes_seen_(C01)'] += 1
                                continue
                            if f_b.get('exc'):
                                stats.extra['exceptions_seen'] += 1
                                continue
                            if not f_b['errors']:
                                stats.evaluations += 1
                                stats.extra['mutation_was_not_a_fault'] += 1
                                continue
                            stats.case('%s|%s|%d|%d|%s' % (base, b['path'], di, ti, fault), nontrivial=di > 0,
                                       classes=['block:' + kind, 'declfault:' + fault, 'noise:' + flags[b['path']], 'decl-index:%d' % min(di, 4)],
                                       sample={'block': b['path'], 'decl_index': di, 'fault': fault, 'text': ov[b['path']][:200],
                                               'errors': [(d['msg'], d['path']) for d in f_b['errors']][:2]})
                            got = decl_entries(f_b['doc'], scope, names)
                            if got != want:
                                for nm, a_, b_ in zip(('variables', 'functions', 'typedefs'), want, got):
                                    if a_ != b_:
                                        missing = [x[0] for x in a_ if x not in b_]
                                        what = ('fault (%s) inside declaration #%d of %s: preceding %s changed: expected %r, document has %r'
                                                % (fault, di, b['path'], nm, a_[:6], b_[:6]))
                                        out = viol(('preceding-' + nm + (':missing' if missing else ':changed'), what),
                                                   {'kind': 'decl', 'base': base, 'xml': xml_mut, 'path': b['path'], 'scope': scope, 'names': sorted(names)}, kind, fault)
                                        if out:
                                            return out
                                        break
        return None

    # part C
    for ci, (cname, xml0, path, kind) in enumerate(collision_models()):
        if ci % nw != wi:
            continue
        doc = F.Doc(xml0)
        blk = [b for b in doc.blocks if b['path'] == path]
        if not blk:
            stats.extra['collision_model_block_not_found'] += 1
            continue
        text = doc.text_of(blk[0])
        c_b = run(xml0, 'builder-only', 'doc,diag')
        if c_b is None or c_b['errors']:
            stats.extra['collision_model_not_accepted'] += 1
            continue
        ntok = len(T.tokens(text))
        for ti in range(ntok):
            for fault in ('drop-token', 'unbalanced-open', 'unbalanced-close', 'stray-token', 'undeclared', 'unterminated-comment', 'truncate'):
                if fault == 'truncate':
                    tk = T.tokens(text)[ti]
                    res = (text[:tk[2]], {}) if ti > 0 else None
                else:
                    res = F.apply_fault(text, fault, ti, variant=ti)
                if res is None:
                    continue
                xml_mut = doc.serialize({path: res[0]})
                f_b = run(xml_mut, 'builder-only', 'doc,diag')
                if f_b is None:
                    stats.extra['crashes_seen_(C01)'] += 1
                    continue
                if f_b.get('exc') or not f_b['errors']:
                    stats.evaluations += 1
                    continue
                site = 'in-quantifier-body' if in_quantifier_body(text, ti) else 'plain'
                stats.case('collision|%s|%d|%s' % (cname, ti, fault), nontrivial=True, classes=['collision-family', 'label:' + kind, 'fault:' + fault, 'site:' + site],
                           sample={'model': cname, 'fault': fault, 'text': res[0][:120], 'errors': [(d['msg'], d['path']) for d in f_b['errors']][:2]})
                v = compare_label_case(c_b, f_b, path, kind, 'builder')
                if v:
                    d = {'rule': v[0], 'block': kind, 'fault': fault, 'site': site}
                    case = {'kind': 'label', 'base': xml0, 'xml': xml_mut, 'path': path, 'label': kind}
                    chk.report(stats, d, v[1], case)

    n = 6 if chk.tier == 'quick' else 70
    common.run_hypothesis(chk, stats, st.tuples(M.models(need_clean=True, max_templates=2), st.integers(0, 10 ** 6)), test, n,
                          chk.seed * 1000 + wi, shrink=False)
    orc.close()
    return stats


def confirm(case):
    orc = oracle.Oracle(os.path.join(common.WORK, 'C16', 'confirm'), cpu_limit=30)
    try:
        def run(xml, builder):
            r = orc.request([dict(entry='xml-buffer', builder=builder, newxta=1, input=xml, dump='doc,diag')])
            return None if 'crash' in r else r['steps'][0]
        c_b, f_b = run(case['base'], 'builder-only'), run(case['xml'], 'builder-only')
        if c_b is None or f_b is None or f_b.get('exc'):
            return None
        if case['kind'] == 'label':
            v = compare_label_case(c_b, f_b, case['path'], case['label'], 'builder')
            if v is None and not f_b['errors']:
                c_d, f_d = run(case['base'], 'document'), run(case['xml'], 'document')
                if c_d is None or f_d is None or f_d.get('exc'):
                    return None
                v = compare_label_case(c_d, f_d, case['path'], case['label'], 'static-analysis')
            return ({}, v[1]) if v else None
        names = set(case['names'])
        want, got = decl_entries(c_b['doc'], case['scope'], names), decl_entries(f_b['doc'], case['scope'], names)
        if want != got:
            return ({}, 'preceding declarations differ: expected %r, got %r' % (want, got))
        return None
    finally:
        orc.close()


def run(chk):
    chk.build('oracle')
    chk.rule = RULE
    chk.assumptions = ['"identical" is decided on the canonical dump of the oracle server (binder symbols of discarded quantifier frames alpha-normalised)',
                       'a mutation that produces no diagnostic anywhere is not a fault',
                       'diagnostics that the fault-free document also has (warnings) are not attributed to the fault']
    for p in sorted(glob.glob(os.path.join(common.VERIF, 'replays', 'C16', '*.json'))):
        rec = json.load(open(p))
        case = rec.get('case', rec)
        chk.stats.case('replay:' + os.path.basename(p), True, ['replay'])
        r = confirm(case)
        if r:
            chk.report(chk.stats, {'rule': 'replay', 'block': os.path.basename(p), 'fault': 'replay'}, r[1], case)
    chk.run_workers(worker)
    return chk.finish(confirm=confirm)


def replay(chk, path):
    chk.build('oracle')
    rec = json.load(open(path))
    case = rec.get('case', rec)
    r = confirm(case)
    if r:
        print('  ' + str(r[1])[:1500])
        print('VIOLATION property=C16 replay=%s' % path)
        return 1
    print('replay: no violation')
    return 0
