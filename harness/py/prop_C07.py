"""C07: identifiers bind to the innermost preceding declaration in scope."""
import glob
import json
import os
import re
from xml.sax.saxutils import escape

from hypothesis import strategies as st

import common
import oracle

LEVEL = 'exploration'

RULE = ('collision models: the one name "n" is declared at a drawn subset of scope levels - global (at a drawn position among the '
        'global declarations), template parameter or template local, parameter or local of a template-local function and of a '
        'global function, nested blocks of depth 1 and 2, for (n : T) iteration binder, forall / exists / sum binders (also '
        'nested), select binder (first or second of the list), parameter of a partial instantiation - each with a distinguishable '
        'type int[0,k], k unique per declaration. Use sites "n == <unique literal>" are emitted before and after every declaration, '
        'inside and after every scope, in invariants, guards and updates of edges with and without a select binder, in a second '
        'template, in instantiation arguments and in queries (unqualified and as P1.n / P1.m with a bound that mentions a template '
        'parameter, P1 being instantiated directly or through one or two partial instantiations). The reference is lexical scoping with "declared textually before use", computed by a scope stack while the '
        'model text is emitted (harness/py/prop_C07.py Emitter). Oracle: for every use site the symbol found in the parsed tree '
        '(located by its literal) has the type bound k of the expected declaration; where no declaration precedes, the site is not '
        'bound to any declaration of n and an $Unknown_identifier error is reported; P1.n has the type of the template\'s n and P1.m '
        'has P1\'s argument substituted into its bound. Non-trivial: a use site at which >= 2 declarations at different levels are '
        'visible and the expected one is not the outermost; distinct = distinct model texts.')

TDECL = 'int[0,%d] n'


class Emitter:
    """emits text and keeps the scope stack; records (literal, expected k or None, visible count, expected-is-outermost)"""

    def __init__(self):
        self.stack = [[]]      # list of scopes; each a list of k (declarations of n in that scope, in order)
        self.uses = []         # (literal, expected k or None, n visible levels, outermost?)
        self.lit = 1000
        self.nextk = 0
        self.decls = {}        # k -> level name

    def push(self):
        self.stack.append([])

    def pop(self):
        self.stack.pop()

    def declare(self, level):
        self.nextk += 1
        k = self.nextk
        self.stack[-1].append(k)
        self.decls[k] = level
        return k

    def lookup(self):
        vis = [s[-1] for s in self.stack if s]
        return (vis[-1] if vis else None), len(vis), (len(vis) <= 1)

    def use(self, where):
        self.lit += 1
        k, nvis, outer = self.lookup()
        self.uses.append({'lit': self.lit, 'expect': k, 'visible': nvis, 'outermost': outer, 'where': where})
        return 'n == %d' % self.lit


def build(f):
    """f: dict of drawn flags -> (xml, queries, emitter, extra expectations)"""
    E = Emitter()
    g = []          # global declaration texts
    gpos = f['g_pos']   # 0 absent, 1 first, 2 middle, 3 last
    # ---- globals (scope 0)
    def gdecl():
        k = E.declare('global')
        g.append('const int[0,%d] n = 0;' % k)
    if gpos == 1:
        gdecl()
    g.append('bool u0 = %s;' % E.use('global-initialiser-early'))
    if f['gfun_early']:
        g.append(function_text(E, f, 'gf0', 'global-function-early'))
    if gpos == 2:
        gdecl()
    g.append('bool u1 = %s;' % E.use('global-initialiser-late'))
    g.append(function_text(E, f, 'gf1', 'global-function-late'))
    if gpos == 3:
        gdecl()
    g.append('int gw; broadcast chan ch;')
    # ---- template P
    E.push()
    tparams = []
    if f['tp']:
        k = E.declare('template-parameter')
        tparams.append('const int[0,%d] n' % k)
    tparams.append('const int pp')
    t = []
    t.append('bool t0 = %s;' % E.use('template-initialiser-early'))
    k_tl = None
    if f['tl'] and not f['tp']:
        k_tl = E.declare('template-local')
        t.append('const int[0,%d] n = 0;' % k_tl)
    t.append('bool t1 = %s;' % E.use('template-initialiser-late'))
    t.append('int[0,pp] m; int[0,pp+1] m2; int[-pp,2*pp] m3; int ma[pp+1]; struct { bool g[pp+1]; int[0,pp*2] h; } ms;')
    t.append(function_text(E, f, 'tf', 'template-function'))
    inv = E.use('invariant')
    # edge 0 with select
    E.push()
    sel = []
    if f['sel'] == 1:
        sel = ['n : int[0,%d]' % E.declare('select-binder')]
    elif f['sel'] == 2:
        sel = ['s0 : int[0,1]', 'n : int[0,%d]' % E.declare('select-binder-second')]
    elif f['sel'] == 3:
        sel = ['s0 : int[0,1]']
    g0 = E.use('guard-of-select-edge')
    if f['quant_in_guard']:
        g0 += ' && ' + quant_text(E, f, 'guard-quantifier')
    u0 = 'gw = (%s) ? 1 : 0' % E.use('update-of-select-edge')
    E.pop()
    # edge 1 without select
    g1 = E.use('guard-of-plain-edge')
    u1 = 'gw = (%s) ? 1 : 0' % E.use('update-of-plain-edge')
    E.pop()
    # ---- template Q (sees only globals)
    E.push()
    gq = E.use('guard-in-other-template')
    E.pop()
    # ---- instantiation (global scope + own parameters)
    inst = []
    targ = []
    if f['tp']:
        targ.append('0')
    targ.append('2')
    E.push()
    if f['ip']:
        k = E.declare('instantiation-parameter')
        inst.append('R(bool bq) = Q(bq);')   # keep R simple
        inst += p1_lines(f, targ)
        inst_use = None
        # partial instantiation with a parameter called n, used in its own argument list
        inst.append('PI(int[0,%d] n) = QB(%s);' % (k, E.use('instantiation-argument')))
    else:
        inst += p1_lines(f, targ)
        inst.append('PI = QB(%s);' % E.use('instantiation-argument'))
    E.pop()
    system = 'system P1, Q, PI;'
    queries = []
    qexp = []
    lit, _ = None, None
    queries.append('E<> %s' % E.use('query-unqualified'))
    # process-qualified: binds to P's n (template local or parameter)
    if k_tl:
        E.lit += 1
        queries.append('E<> P1.n == %d' % E.lit)
        qexp.append({'lit': E.lit, 'member': 'n', 'expect_k': k_tl, 'has': True})
    E.lit += 1
    queries.append('E<> P1.m == %d' % E.lit)
    qexp.append({'lit': E.lit, 'member': 'm', 'expect_bound': '(CONSTANT 2)', 'has': True})
    E.lit += 1
    queries.append('E<> P1.m2 == %d' % E.lit)
    qexp.append({'lit': E.lit, 'member': 'm2', 'expect_bound': '(PLUS (CONSTANT 2) (CONSTANT 1))', 'has': True})
    E.lit += 1
    queries.append('E<> P1.m3 == %d' % E.lit)
    qexp.append({'lit': E.lit, 'member': 'm3', 'expect_bound': '(MULT (CONSTANT 2) (CONSTANT 2))', 'has': True})
    # members whose array sizes mention the parameter: only the general rule below applies (no parameter may survive in the type)
    queries.append('E<> P1.ma[0] == 7')
    queries.append('E<> P1.ms.g[1]')
    queries.append('E<> P1.ms.h == 3')
    xml = ['<nta><declaration>%s</declaration>' % escape('\n'.join(g))]
    xml.append('<template><name>P</name><parameter>%s</parameter><declaration>%s</declaration>' % (escape(', '.join(tparams)), escape('\n'.join(t))))
    xml.append('<location id="id0"><name>L0</name><label kind="invariant">%s</label></location><location id="id1"><name>L1</name></location><init ref="id0"/>' % escape(inv))
    xml.append('<transition><source ref="id0"/><target ref="id1"/>%s<label kind="guard">%s</label><label kind="assignment">%s</label></transition>' % (
        ('<label kind="select">%s</label>' % escape(', '.join(sel))) if sel else '', escape(g0), escape(u0)))
    xml.append('<transition><source ref="id1"/><target ref="id0"/><label kind="guard">%s</label><label kind="assignment">%s</label></transition></template>' % (escape(g1), escape(u1)))
    xml.append('<template><name>Q</name><location id="q0"><name>K0</name></location><init ref="q0"/><transition><source ref="q0"/><target ref="q0"/>'
               '<label kind="guard">%s</label></transition></template>' % escape(gq))
    xml.append('<template><name>QB</name><parameter>bool bq</parameter><location id="b0"><name>K0</name></location><init ref="b0"/></template>')
    xml.append('<system>%s\n%s</system></nta>' % (escape('\n'.join(i for i in inst if not i.startswith('R('))), system))
    name = f.get('name', 'n')
    xml = ''.join(xml)
    # other words that the query grammar re-admits as identifiers are declared too, with bounds of their own: a name mixed up with one of them shows
    others = [w for w in ('sup', 'inf', 'bounds', 'simulation') if w != name]
    distract = ' '.join('const int[0,%d] %s = 0;' % (91 + k, w) for k, w in enumerate(others))
    xml = xml.replace('<nta><declaration>', '<nta><declaration>' + distract + '\n', 1)
    if name != 'n':
        ren = lambda s: re.sub(r'(?<![A-Za-z_0-9$#.])n(?![A-Za-z_0-9$#])', name.replace('\\', '\\\\'), s)
        xml = re.sub(r'>([^<]*)<', lambda mo: '>' + ren(mo.group(1)) + '<', xml)
        queries = [re.sub(r'\.n(?![A-Za-z_0-9$#])', '.' + name, ren(q)) for q in queries]
    E.name = name
    return xml, queries, E, qexp


def p1_lines(f, targ):
    """P1 either directly from the template or through one / two partial instantiations whose parameters feed pp"""
    pre = targ[:-1]
    if f['chain'] == 1:
        return ['PQ(const int qa) = P(%s);' % ', '.join(pre + ['qa']), 'P1 = PQ(2);']
    if f['chain'] == 2:
        return ['PQ(const int qa) = P(%s);' % ', '.join(pre + ['qa']), 'PR(const int ra) = PQ(ra);', 'P1 = PR(2);']
    if f['chain'] == 3:
        return ['PQ(const int qa, const int qb) = P(%s);' % ', '.join(pre + ['qb']), 'P1 = PQ(7, 2);']
    return ['P1 = P(%s);' % ', '.join(targ)]


def quant_text(E, f, where):
    out = []
    kw = ['forall', 'exists'][f['quant_kw'] % 2]
    E.push()
    k = E.declare('quantifier-binder')
    inner = E.use(where + '-body')
    if f['quant_nested']:
        E.push()
        k2 = E.declare('nested-quantifier-binder')
        inner2 = E.use(where + '-nested-body')
        E.pop()
        after = E.use(where + '-after-nested')
        body = '(%s) && (%s (n : int[0,%d]) %s) && (%s)' % (inner, ['exists', 'forall'][f['quant_kw'] % 2], k2, inner2, after)
    else:
        body = inner
    E.pop()
    return '(%s (n : int[0,%d]) %s)' % (kw, k, body)


def function_text(E, f, name, where):
    """bool <name>(params) { ... } with uses and declarations at drawn places; returns the text"""
    lines = []
    E.push()
    params = []
    fl = f['fl'] and not f['ff']
    if f['ff']:
        params.append('int[0,%d] n' % E.declare('function-parameter'))
    body = []
    body.append('bool e0 = %s;' % E.use(where + ':local-initialiser-early'))
    if fl:
        body.append('int[0,%d] n;' % E.declare('function-local'))
    body.append('bool e1 = %s;' % E.use(where + ':local-initialiser-late'))
    body.append('bool acc = e0 && e1;')
    if f['b1']:
        E.push()
        blk = ['bool c0 = %s;' % E.use(where + ':block1-before')]
        if f['b1'] == 2:
            blk.append('int[0,%d] n;' % E.declare('block-depth-1'))
            blk.append('bool c1 = %s;' % E.use(where + ':block1-after-declaration'))
        blk.append('acc = acc && c0;')
        if f['b2']:
            E.push()
            blk2 = ['bool d0 = %s;' % E.use(where + ':block2-before')]
            if f['b2'] == 2:
                blk2.append('int[0,%d] n;' % E.declare('block-depth-2'))
                blk2.append('bool d1 = %s;' % E.use(where + ':block2-after-declaration'))
            blk2.append('acc = acc && d0;')
            E.pop()
            blk.append('{ ' + ' '.join(blk2) + ' }')
            blk.append('acc = acc && (%s);' % E.use(where + ':block1-after-inner-block'))
        E.pop()
        body.append('{ ' + ' '.join(blk) + ' }')
        body.append('acc = acc && (%s);' % E.use(where + ':after-block'))
    if f['it']:
        E.push()
        k = E.declare('iteration-binder')
        inner = ''
        if f['it'] in (1, 2):
            inner = 'acc = acc && (%s);' % E.use(where + ':iteration-body')
        if f['it'] == 2:
            # brace-less nested iteration: the inner body must still see the outer binder when the inner one has another name
            inner = 'for (j : int[0,1]) ' + inner
        elif f['it'] == 3:
            E.push()
            k2 = E.declare('nested-iteration-binder')
            inner = 'for (n : int[0,%d]) { acc = acc && (%s); }' % (k2, E.use(where + ':nested-iteration-body'))
            E.pop()
            inner += ' acc = acc && (%s);' % E.use(where + ':after-nested-iteration')
            inner = '{ ' + inner + ' }'
        E.pop()
        body.append('for (n : int[0,%d]) %s' % (k, inner))
        body.append('acc = acc && (%s);' % E.use(where + ':after-iteration'))
    if f['quant_in_fun']:
        body.append('acc = acc && %s;' % quant_text(E, f, where + ':quantifier'))
        body.append('acc = acc && (%s);' % E.use(where + ':after-quantifier'))
    if f['ifelse']:
        body.append('if (%s) { acc = !acc; } else { acc = acc && (%s); }' % (E.use(where + ':if-condition'), E.use(where + ':else-branch')))
    body.append('return acc;')
    E.pop()
    return 'bool %s(%s) { %s }' % (name, ', '.join(params), ' '.join(body))


FLAGS = st.fixed_dictionaries({
    'g_pos': st.sampled_from([1, 1, 1, 0, 2, 3]), 'gfun_early': st.booleans(), 'tp': st.booleans(), 'tl': st.booleans(), 'ff': st.booleans(), 'fl': st.booleans(),
    'b1': st.integers(0, 2), 'b2': st.integers(0, 2), 'it': st.integers(0, 3), 'quant_in_fun': st.booleans(), 'quant_in_guard': st.booleans(),
    'quant_nested': st.booleans(), 'quant_kw': st.integers(0, 1), 'sel': st.integers(0, 3), 'ip': st.booleans(), 'ifelse': st.booleans(), 'chain': st.integers(0, 3),
    'name': st.sampled_from(['n', 'n', 'n', 'bounds', 'inf', 'sup', 'simulation', '_n', 'n$'])})

BOUND_RE = re.compile(r'RANGE\(INT,UNKNOWN<[^<>]*>,UNKNOWN<([^<>]*)>\)')


def bound_of(typestr):
    m = BOUND_RE.search(typestr or '')
    return m.group(1) if m else None


def evaluate(step, E, qexp, nq):
    """-> list of (rule, level, what)"""
    out = []
    text = json.dumps(step.get('doc')) + json.dumps([q.get('exprs') for q in step.get('queries', [])])
    symtab = step.get('symtab', {})
    unknown_errors = [e for e in step.get('errors', []) if e['msg'].startswith('$Unknown_identifier: ' + getattr(E, 'name', 'n'))]
    for q in step.get('queries', []):
        unknown_errors += [m for m in q.get('msgs', []) if m.startswith('E:$Unknown_identifier: ' + getattr(E, 'name', 'n'))]
    expected_unknown = 0
    for u in E.uses:
        if u['where'].startswith('query') and step.get('errors'):
            continue      # queries are only typed against an error-free document
        m = re.search(r'\(EQ \(IDENTIFIER @([^ ]+?)\) \(CONSTANT %d\)\)' % u['lit'], text)
        level = E.decls.get(u['expect'], 'none')
        if u['expect'] is None:
            expected_unknown += 1
            if m and m.group(1) != 'null':
                k = bound_of(symtab.get(m.group(1)))
                out.append(('bound-although-undeclared', u['where'], 'use site %s (literal %d) has no preceding declaration of n in scope but is bound to %s (type bound %s)' % (u['where'], u['lit'], m.group(1), k)))
            continue
        if not m:
            out.append(('not-found-or-unknown', level, 'use site %s (literal %d) should bind to the %s declaration int[0,%d] but no bound identifier is in the parsed tree (errors: %r)'
                        % (u['where'], u['lit'], level, u['expect'], [e['msg'] for e in step.get('errors', [])][:3])))
            continue
        k = bound_of(symtab.get(m.group(1)))
        if k != '(CONSTANT %d)' % u['expect']:
            got_level = 'unknown'
            mk = re.match(r'\(CONSTANT (\d+)\)', k or '')
            if mk:
                got_level = E.decls.get(int(mk.group(1)), 'unknown')
            out.append(('wrong-binding', level + '->' + got_level, 'use site %s (literal %d) should bind to the %s declaration int[0,%d] but is bound to %s with type bound %s (%s)'
                        % (u['where'], u['lit'], level, u['expect'], m.group(1), k, got_level)))
    if expected_unknown and not unknown_errors:
        out.append(('unknown-not-reported', 'none', '%d use sites have no declaration of n in scope but no $Unknown_identifier error is reported' % expected_unknown))
    # process-qualified names
    dots = [d for q in step.get('queries', []) for d in q.get('dot_types', [])]
    qtext = json.dumps([q.get('exprs') for q in step.get('queries', [])])
    for qe in qexp:
        if step.get('errors') or expected_unknown:
            break     # queries are only typed against an error-free document
        m = re.search(r'\(EQ (\(DOT \.(\d+) \(IDENTIFIER @[^ ]+?\)\)) \(CONSTANT %d\)\)' % qe['lit'], qtext)
        if not qe['has']:
            continue
        if not m:
            out.append(('qualified-not-found', qe['member'], 'P1.%s (literal %d) did not resolve to a member access' % (qe['member'], qe['lit'])))
            continue
        ty = [d['type'] for d in dots if d['node'] == m.group(1)]
        b = bound_of(ty[0]) if ty else None
        want = qe.get('expect_bound') or '(CONSTANT %d)' % qe['expect_k']
        if b != want:
            out.append(('qualified-wrong-type', qe['member'], 'P1.%s has type bound %s, expected %s' % (qe['member'], b, want)))
    if not (step.get('errors') or expected_unknown):
        # "with P's arguments substituted": no template / instance parameter may be left anywhere in the type of a P1.x access
        for d_ in dots:
            mm = re.search(r'IDENTIFIER @((?:T|P|I)\([^)]*\)\.p/[A-Za-z_0-9]+)', d_['type'])
            if mm:
                out.append(('qualified-parameter-not-substituted', re.sub(r'[0-9]+', 'N', d_['node'].split(' ')[1] if ' ' in d_['node'] else 'dot'),
                            'the type of %s still mentions the parameter %s: %s' % (d_['node'], mm.group(1), d_['type'][:300])))
                break
    return out


# ---------------------------------------------------------------- type names: "each identifier occurrence in an expression or type"
TFLAGS = st.fixed_dictionaries({'tl': st.integers(0, 2), 'gf': st.integers(0, 2), 'gb': st.integers(0, 2), 'tf': st.integers(0, 2), 'tb': st.integers(0, 2),
                                'tb2': st.booleans(), 'name': st.sampled_from(['TY', 'int8_t', 'Ty_2'])})


def build_types(f):
    """the type name TY is declared globally (always, first) and at a drawn subset of: template declarations, a global function body, a block in
    it, a template function body, a block in it (0 absent, 1 early, 2 late); probe variables of type TY are declared before and after each
    typedef, inside and after each scope. -> (xml, emitter); a use is a probe variable name, its expected k the innermost preceding typedef"""
    E = Emitter()
    TY = f['name']
    probes = []

    def probe(where):
        E.lit += 1
        k, nvis, outer = E.lookup()
        E.uses.append({'lit': E.lit, 'expect': k, 'visible': nvis, 'outermost': outer, 'where': where})
        return 'pv%d' % E.lit

    def typedef(level):
        return 'typedef int[0,%d] %s;' % (E.declare(level), TY)

    def body(fn, fl, bl, level, extra_block=False):
        # declarations come first in a block; nested blocks and loops are statements and follow them
        E.push()
        s = ['void %s(%s %s) {' % (fn, TY, probe(level + '-parameter'))]
        s.append('%s %s;' % (TY, probe(level + '-body-start')))
        if fl == 1:
            s.append(typedef(level + '-local'))
        s.append('%s %s;' % (TY, probe(level + '-after-early-typedef')))
        if fl == 2:
            s.append(typedef(level + '-local'))
        s.append('%s %s;' % (TY, probe(level + '-body-end')))
        E.push()
        s.append('{ %s %s;' % (TY, probe(level + '-block-start')))
        if bl:
            s.append(typedef(level + '-block'))
        arr = probe(level + '-block-array')
        s.append('%s %s[2];' % (TY, arr))
        s.append('%s %s;' % (TY, probe(level + '-block-end')))
        if extra_block:
            E.push()
            s.append('{ %s %s; %s %s %s; }' % (TY, probe(level + '-inner-block-start'), typedef(level + '-inner-block'), TY, probe(level + '-inner-block-end')))
            E.pop()
        s.append('for (z : %s) { %s[0] = z; } }' % (TY, arr))
        E.pop()
        s.append('}')
        E.pop()
        return ' '.join(s)

    g = []
    if TY != 'int8_t':        # int8_t is a type name of the built-in declarations: the outermost level is already there
        g.append(typedef('global'))
    else:
        E.declare('built-in')
        E.decls[E.nextk] = 'built-in'
    g.append('%s %s;' % (TY, probe('global')))
    g.append(body('gfn', f['gf'], f['gb'], 'global-function', f['tb2']))
    g.append('%s %s;' % (TY, probe('global-after-function')))
    E.push()
    tdecl = ['%s %s;' % (TY, probe('template-start'))]
    if f['tl'] == 1:
        tdecl.append(typedef('template-local'))
    tdecl.append('%s %s;' % (TY, probe('template-after-early-typedef')))
    tdecl.append(body('tfn', f['tf'], f['tb'], 'template-function', False))
    if f['tl'] == 2:
        tdecl.append(typedef('template-local'))
    tdecl.append('%s %s;' % (TY, probe('template-end')))
    tdecl.append('struct { %s fld; } %s;' % (TY, probe('template-struct-field')))
    sel = 's : %s' % TY
    E.pop()
    E.push()
    qdecl = '%s %s;' % (TY, probe('other-template'))
    E.pop()
    xml = ('<nta><declaration>%s</declaration><template><name>P</name><declaration>%s</declaration><location id="id0"><name>L0</name></location><init ref="id0"/>'
           '<transition><source ref="id0"/><target ref="id0"/><label kind="select">%s</label></transition></template>'
           '<template><name>Q</name><declaration>%s</declaration><location id="q0"><name>K0</name></location><init ref="q0"/></template>'
           '<system>system P, Q;</system></nta>') % (escape('\n'.join(g)), escape('\n'.join(tdecl)), escape(sel), escape(qdecl))
    return xml, E


def evaluate_types(step, E, builtin_bound=None):
    out = []
    symtab = step.get('symtab', {})
    errs = [e['msg'] for e in step.get('errors', [])]
    for u in E.uses:
        keys = [k for k in symtab if k.endswith('/pv%d' % u['lit'])]
        level = E.decls.get(u['expect'], 'none')
        if not keys:
            out.append(('type-name-probe-missing', level, 'the variable pv%d declared with the type name at %s is not in the document (errors: %r)' % (u['lit'], u['where'], errs[:3])))
            continue
        ty = symtab[keys[0]]
        if u['where'].endswith('struct-field'):
            continue
        b = bound_of(ty)
        if level == 'built-in':
            want = '(IDENTIFIER @g/INT8_MAX)'
        else:
            want = '(CONSTANT %d)' % u['expect']
        if b != want:
            mk = re.match(r'\(CONSTANT (\d+)\)', b or '')
            got_level = E.decls.get(int(mk.group(1)), 'unknown') if mk else ('built-in' if b == '(IDENTIFIER @g/INT8_MAX)' else 'unknown')
            out.append(('type-name-wrong-binding', level + '->' + got_level, 'the type name at %s (variable pv%d) should denote the %s typedef int[0,%s] but the variable has type bound %s (%s) (errors: %r)'
                        % (u['where'], u['lit'], level, u['expect'], b, got_level, errs[:2])))
    return out


def run_model(orc, xml, queries):
    r = orc.request([dict(entry='xml-buffer', builder='document', newxta=1, input=xml, dump='doc,diag,symtab', actions='queries', queries='\n'.join(queries), dot_types=1)])
    if 'crash' in r:
        return None
    return r['steps'][0]


def worker(chk, wi, nw):
    stats = common.Stats()
    orc = oracle.Oracle(os.path.join(chk.workdir, 'w%d' % wi), cpu_limit=60)

    def test(f):
        xml, queries, E, qexp = build(f)
        step = run_model(orc, xml, queries)
        nt = any(u['visible'] >= 2 and not u['outermost'] for u in E.uses)
        levels = sorted(set(E.decls.values()))
        stats.case(xml + '|' + '|'.join(queries), nontrivial=nt,
                   classes=['level:' + l for l in levels] + ['expected-unknown-sites' if any(u['expect'] is None for u in E.uses) else 'all-sites-bound'],
                   sample={'flags': f, 'uses': len(E.uses), 'declarations': E.decls, 'xml_prefix': xml[:400]})
        stats.extra['use_sites'] += len(E.uses)
        stats.extra['use_sites_with_shadowing'] += sum(1 for u in E.uses if u['visible'] >= 2)
        if step is None:
            stats.extra['crashes_seen_(C01)'] += 1
            return None
        if step.get('exc'):
            stats.extra['exceptions_seen'] += 1
            return None
        for rule, level, what in evaluate(step, E, qexp, len(queries)):
            d = {'rule': rule, 'level': level}
            case = {'kind': 'flags', 'flags': f}
            if chk.is_known(d):
                chk.report(stats, d, what, case)
                continue
            return (d, what, case)
        return None

    n = 150 if chk.tier == 'quick' else 4000
    common.run_hypothesis(chk, stats, FLAGS, test, n, chk.seed * 1000 + wi)

    def test_types(f):
        xml, E = build_types(f)
        step = run_model(orc, xml, [])
        levels = sorted(set(E.decls.values()))
        stats.case(xml, nontrivial=any(u['visible'] >= 2 for u in E.uses), classes=['type-name-model'] + ['type-level:' + l for l in levels],
                   sample={'flags': f, 'probes': len(E.uses), 'typedefs': E.decls, 'xml_prefix': xml[:400]})
        stats.extra['type_name_use_sites'] += len(E.uses)
        if step is None:
            stats.extra['crashes_seen_(C01)'] += 1
            return None
        if step.get('exc'):
            stats.extra['exceptions_seen'] += 1
            return None
        for rule, level, what in evaluate_types(step, E):
            d = {'rule': rule, 'level': level}
            case = {'kind': 'type-flags', 'flags': f}
            if chk.is_known(d):
                chk.report(stats, d, what, case)
                continue
            return (d, what, case)
        return None
    common.run_hypothesis(chk, stats, TFLAGS, test_types, n // 2, chk.seed * 1000 + 500 + wi)
    orc.close()
    return stats


def confirm(case):
    orc = oracle.Oracle(os.path.join(common.WORK, 'C07', 'confirm'), cpu_limit=60)
    try:
        if case.get('kind') == 'type-flags':
            xml, E = build_types(case['flags'])
            step = run_model(orc, xml, [])
            if step is None or step.get('exc'):
                return None
            v = evaluate_types(step, E)
            return ({}, v[0][2]) if v else None
        xml, queries, E, qexp = build(case['flags'])
        step = run_model(orc, xml, queries)
        if step is None or step.get('exc'):
            return None
        v = evaluate(step, E, qexp, len(queries))
        return ({}, v[0][2]) if v else None
    finally:
        orc.close()


def run(chk):
    chk.build('oracle')
    chk.rule = RULE
    chk.assumptions = ['a use site is located in the parsed document by its unique literal; its binding is identified by the unique type bound of the declaration',
                       'template parameter and template local (function parameter and function local) of the same name are not generated together: that is a duplicate definition, not shadowing']
    for p in sorted(glob.glob(os.path.join(common.VERIF, 'replays', 'C07', '*.json'))):
        rec = json.load(open(p))
        case = rec.get('case', rec)
        chk.stats.case('replay:' + os.path.basename(p), True, ['replay'])
        r = confirm(case)
        if r:
            chk.report(chk.stats, {'rule': 'replay', 'level': os.path.basename(p)}, r[1], case)
    chk.run_workers(worker)
    return chk.finish(confirm=confirm)


def replay(chk, path):
    chk.build('oracle')
    rec = json.load(open(path))
    case = rec.get('case', rec)
    r = confirm(case)
    if r:
        print('  ' + str(r[1])[:1500])
        print('VIOLATION property=C07 replay=%s' % path)
        return 1
    print('replay: no violation')
    return 0
