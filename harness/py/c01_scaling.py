"""C01 layer 3: CPU time must stay in proportion to the input size (scaling probe over input families)."""
import os

import common
import oracle

DECL = 'int i; bool b; clock x; int a[4]; int f(int k) { return k; } int g(int k, int l) { return k + l; }'


def xml_model(decl=DECL, guard=None, assign=None, select=None, system='system P;', templates=None, queries=None):
    from xml.sax.saxutils import escape
    lab = lambda k, t: '<label kind="%s">%s</label>' % (k, escape(t)) if t is not None else ''
    t = templates if templates is not None else (
        '<template><name>P</name><declaration></declaration><location id="id0"><name>L0</name></location><init ref="id0"/>'
        '<transition><source ref="id0"/><target ref="id0"/>%s%s%s</transition></template>' % (lab('select', select), lab('guard', guard), lab('assignment', assign)))
    q = ''
    if queries:
        q = '<queries>' + ''.join('<query><formula>%s</formula><comment/></query>' % escape(x) for x in queries) + '</queries>'
    return '<nta><declaration>%s</declaration>%s<system>%s</system>%s</nta>' % (escape(decl), t, escape(system), q)


def nest(fmt_open, leaf, fmt_close, n):
    return fmt_open * n + leaf + fmt_close * n


def families():
    """name -> (function(n) -> step dict, unit description). Every input is valid or fails with ordinary diagnostics."""
    F = {}
    doc = lambda xml: dict(entry='xml-buffer', builder='document', newxta=1, input=xml, dump='none')
    F['nested-parentheses-guard'] = lambda n: doc(xml_model(guard=nest('(', 'i', ')', n) + ' >= 0'))
    F['operator-chain-guard'] = lambda n: doc(xml_model(guard='i' + ' + 1' * n + ' >= 0'))
    F['unary-chain-guard'] = lambda n: doc(xml_model(guard=('- ' * n) + 'i >= 0'))
    F['not-chain-guard'] = lambda n: doc(xml_model(guard=('!' * n) + 'b'))
    F['nested-user-function-calls'] = lambda n: doc(xml_model(guard=nest('f(', 'i', ')', n) + ' >= 0'))
    F['nested-two-argument-calls'] = lambda n: doc(xml_model(guard=nest('g(i, ', 'i', ')', n) + ' >= 0'))
    F['nested-builtin-calls'] = lambda n: doc(xml_model(guard=nest('abs(', 'i', ')', n) + ' >= 0'))
    F['nested-inline-if'] = lambda n: doc(xml_model(guard=nest('(b ? ', 'i', ' : 0)', n) + ' >= 0'))
    F['nested-array-index'] = lambda n: doc(xml_model(guard=nest('a[', 'i', ']', n) + ' >= 0'))
    F['nested-quantifiers'] = lambda n: doc(xml_model(guard=''.join('forall (k%d : int[0,1]) ' % j for j in range(n)) + 'b'))
    F['conjunction-chain-guard'] = lambda n: doc(xml_model(guard=' && '.join(['x >= %d' % (j % 7) for j in range(n)])))
    F['update-list'] = lambda n: doc(xml_model(assign=', '.join('i = %d' % j for j in range(n))))
    F['select-list'] = lambda n: doc(xml_model(select=', '.join('s%d : int[0,1]' % j for j in range(n))))
    F['declaration-list'] = lambda n: doc(xml_model(decl=DECL + ''.join(' int v%d;' % j for j in range(n))))
    F['one-declaration-many-names'] = lambda n: doc(xml_model(decl=DECL + ' int ' + ', '.join('w%d' % j for j in range(n)) + ';'))
    F['nested-blocks-in-function'] = lambda n: doc(xml_model(decl=DECL + ' void h() ' + nest('{ ', 'i = 1;', ' }', n)))
    F['nested-if-in-function'] = lambda n: doc(xml_model(decl=DECL + ' void h() { ' + 'if (b) ' * n + 'i = 1; }'))
    F['statement-list-in-function'] = lambda n: doc(xml_model(decl=DECL + ' void h() { ' + 'i = i + 1; ' * n + '}'))
    F['function-chain'] = lambda n: doc(xml_model(decl=DECL + ' int c0() { return 1; }' + ''.join(' int c%d() { return c%d() + c%d(); }' % (j, j - 1, j - 1) for j in range(1, n + 1)),
                                        guard='c%d() >= 0' % n))
    F['nested-struct-initialiser'] = lambda n: doc(xml_model(decl=DECL + ' int z = ' + nest('{', '1', '}', n) + ';'))
    F['array-initialiser-list'] = lambda n: doc(xml_model(decl=DECL + ' int big[%d] = {' % n + ', '.join('1' for _ in range(n)) + '};'))
    F['multi-dimensional-array'] = lambda n: doc(xml_model(decl=DECL + ' int md' + '[1]' * n + ';'))
    F['long-block-comment'] = lambda n: doc(xml_model(decl=DECL + ' /*' + 'x' * (n * 8) + '*/ int after;'))
    F['many-line-comments'] = lambda n: doc(xml_model(decl=DECL + '\n' + '// c\n' * n + 'int after;'))
    F['long-identifier'] = lambda n: doc(xml_model(decl=DECL + ' int ' + 'q' * min(n * 8, 3900) + ';'))
    F['continuation-lines'] = lambda n: doc(xml_model(decl=DECL + ' int cl = 1' + ' \\\n + 1' * n + ';'))
    F['syntax-error-flood'] = lambda n: doc(xml_model(decl=DECL + ' int ;' * n))
    F['unknown-identifier-flood'] = lambda n: doc(xml_model(guard=' && '.join('u%d > 0' % j for j in range(n))))
    F['type-error-flood'] = lambda n: doc(xml_model(assign=', '.join('b = a' for j in range(n))))
    F['many-edges'] = lambda n: doc(xml_model(templates='<template><name>P</name><location id="id0"><name>L0</name></location><init ref="id0"/>' +
                                    ''.join('<transition><source ref="id0"/><target ref="id0"/><label kind="guard">i &gt;= %d</label></transition>' % j for j in range(n)) + '</template>'))
    F['many-locations'] = lambda n: doc(xml_model(templates='<template><name>P</name>' + ''.join('<location id="id%d"><name>L%d</name></location>' % (j, j) for j in range(n)) + '<init ref="id0"/></template>'))
    F['many-templates'] = lambda n: doc(xml_model(templates=''.join('<template><name>T%d</name><location id="t%d"><name>L</name></location><init ref="t%d"/></template>' % (j, j, j) for j in range(n)),
                                        system='system ' + ', '.join('T%d' % j for j in range(n)) + ';'))
    F['many-instantiations'] = lambda n: doc(xml_model(system=''.join('Q%d = P(); ' % j for j in range(n)) + 'system ' + ', '.join('Q%d' % j for j in range(n)) + ';'))
    F['priority-chain'] = lambda n: doc(xml_model(system=''.join('Q%d = P(); ' % j for j in range(n)) + 'system ' + ' < '.join('Q%d' % j for j in range(n)) + ';'))
    F['many-embedded-queries'] = lambda n: doc(xml_model(queries=['A[] i >= %d' % j for j in range(n)]))
    base = xml_model()
    F['many-queries-parsed'] = lambda n: dict(entry='xml-buffer', builder='document', newxta=1, input=base, dump='none', actions='queries',
                                               queries='\n'.join('A[] i >= %d' % j for j in range(n)))
    F['deep-query-expression'] = lambda n: dict(entry='xml-buffer', builder='document', newxta=1, input=base, dump='none', actions='queries',
                                                 queries='E<> ' + nest('(', 'i', ')', n) + ' + ' + nest('f(', 'i', ')', min(n, 40)) + ' >= 0')
    F['xta-transition-list'] = lambda n: dict(entry='xta-buffer', builder='document', newxta=1, dump='none',
                                               input='int i;\nprocess P() { state L0; init L0; trans ' + ',\n'.join('L0 -> L0 { guard i >= %d; }' % j for j in range(n)) + '; }\nsystem P;\n')
    F['pretty-printer-declarations'] = lambda n: dict(entry='xta-buffer', builder='pretty', newxta=1, dump='none',
                                                       input=''.join('int v%d = %d + 1;\n' % (j, j) for j in range(n)) + 'process P() { state L0; init L0; }\nsystem P;\n')
    return F


RATIO_LIMIT = 8 ** 2.5       # cpu(8n) / cpu(n)
ABS_LIMIT = 20.0             # seconds of CPU for an input of at most 64 KiB


def measure(orc, step):
    """-> (cpu seconds or None on crash, timed_out, crashed descriptor)"""
    r = orc.request([step])
    if 'crash' in r:
        d = oracle.crash_descriptor(r['crash'])
        return r.get('child_cpu_s', 0.0), d['kind'] == 'timeout', d
    return r.get('child_cpu_s', 0.0), False, None


def probe_family(orc, name, gen, quick):
    """-> dict(sizes, cpus, verdict in ok / ratio / absolute / crash, detail)"""
    n = 4
    # find a starting size: first run >= 20 ms CPU, or input > 4 KiB
    while True:
        st = gen(n)
        if len(st['input']) + len(st.get('queries', '')) > 4096 or n >= 4096:
            break
        cpu, to, cr = measure(orc, st)
        if to or cr:
            return {'family': name, 'sizes': [n], 'cpus': [cpu], 'verdict': 'timeout' if to else 'crash', 'detail': (cr or {}).get('frames', ''), 'bytes': len(st['input'])}
        if cpu >= 0.02:
            break
        n *= 2
    sizes, cpus, nbytes = [], [], []
    for mult in (1, 2, 4, 8):
        st = gen(n * mult)
        size = len(st['input']) + len(st.get('queries', ''))
        if size > 65536 and mult > 1:
            break
        cpu, to, cr = measure(orc, st)
        sizes.append(n * mult)
        cpus.append(round(cpu, 4))
        nbytes.append(size)
        if to:
            return {'family': name, 'sizes': sizes, 'cpus': cpus, 'bytes': nbytes, 'verdict': 'timeout', 'detail': 'CPU limit hit at size %d (%d bytes)' % (n * mult, size)}
        if cr:
            return {'family': name, 'sizes': sizes, 'cpus': cpus, 'bytes': nbytes, 'verdict': 'crash', 'detail': cr['kind'] + ' ' + cr['frames']}
        if cpu > ABS_LIMIT:
            return {'family': name, 'sizes': sizes, 'cpus': cpus, 'bytes': nbytes, 'verdict': 'absolute', 'detail': '%.1f s CPU for %d bytes' % (cpu, size)}
    res = {'family': name, 'sizes': sizes, 'cpus': cpus, 'bytes': nbytes, 'verdict': 'ok', 'detail': ''}
    if len(cpus) >= 2 and cpus[0] >= 0.02:
        ratio = cpus[-1] / max(cpus[0], 1e-4)
        allowed = (sizes[-1] / sizes[0]) ** 2.5
        res['ratio'] = round(ratio, 1)
        if ratio > allowed and cpus[-1] > 1.0:
            res['verdict'] = 'ratio'
            res['detail'] = 'cpu grows by a factor %.0f for a size factor %d (allowed %.0f)' % (ratio, sizes[-1] // sizes[0], allowed)
    return res


def worker(chk, wi, nw):
    stats = common.Stats()
    orc = oracle.Oracle(os.path.join(chk.workdir, 'sc%d' % wi), cpu_limit=int(ABS_LIMIT) + 5)
    fams = sorted(families().items())
    quick = chk.tier == 'quick'
    for k, (name, gen) in enumerate(fams):
        if k % nw != wi:
            continue
        res = probe_family(orc, name, gen, quick)
        stats.case('scaling:' + name, nontrivial=True, classes=['scaling-family', 'scaling:' + res['verdict']],
                   sample={'family': name, 'sizes': res['sizes'], 'cpu_s': res['cpus'], 'bytes': res.get('bytes')})
        stats.evaluations += max(0, len(res['sizes']) - 1)
        stats.notes.setdefault('scaling', {})[name] = {'sizes': res['sizes'], 'cpu_s': res['cpus'], 'verdict': res['verdict']}
        if res['verdict'] in ('ok',):
            continue
        if res['verdict'] == 'crash':
            d = {'kind': 'scaling-crash:' + res['detail'].split(' ')[0], 'frames': ' '.join(res['detail'].split(' ')[1:])}
        else:
            d = {'kind': 'time-out-of-proportion', 'frames': name}
        case = {'kind': 'scaling', 'family': name}
        chk.report(stats, d, 'input family %s: %s (sizes %r, cpu %r s, bytes %r)' % (name, res['detail'], res['sizes'], res['cpus'], res.get('bytes')), case)
    orc.close()
    return stats


def confirm(case):
    """re-measure the family alone; a violation only if it shows again"""
    orc = oracle.Oracle(os.path.join(common.WORK, 'C01', 'confirm-scaling'), cpu_limit=int(ABS_LIMIT) + 5)
    try:
        res = probe_family(orc, case['family'], families()[case['family']], False)
        if res['verdict'] == 'ok':
            return None
        return ({'kind': res['verdict'], 'frames': case['family']}, '%s: %s' % (case['family'], res['detail']))
    finally:
        orc.close()
