"""Small delta-debugging reducer over lines, then tokens, then characters (used for triage, never for verdicts)."""
import re


def ddmin(items, pred):
    n = 2
    while len(items) >= 2:
        chunk = max(1, len(items) // n)
        reduced = False
        for i in range(0, len(items), chunk):
            cand = items[:i] + items[i + chunk:]
            if cand and pred(cand):
                items = cand
                n = max(n - 1, 2)
                reduced = True
                break
        if not reduced:
            if chunk == 1:
                break
            n = min(n * 2, len(items))
    return items


def reduce_text(text, pred, levels=('lines', 'tokens')):
    if 'lines' in levels:
        parts = text.split('\n')
        parts = ddmin(parts, lambda p: pred('\n'.join(p)))
        text = '\n'.join(parts)
    if 'tokens' in levels:
        parts = re.findall(r'\s+|\w+|[^\w\s]', text)
        if len(parts) < 3000:
            parts = ddmin(parts, lambda p: pred(''.join(p)))
            text = ''.join(parts)
    return text
