"""C03: printing an expression or query and re-parsing it reproduces the same tree (and the same text)."""
import glob
import json
import os
import re

import common
import gen_expr as G
import gen_query as Q
import oracle
from prop_C02 import children, replace, form_of, tup

LEVEL = 'exploration'
RULE = ('(A) untyped expression trees (all depth-2 (parent form, slot, child form) triples + Hypothesis trees up to 12 leaves) '
        'parsed with an ExpressionBuilder in a fixed environment; (B) typed queries of every query form of the grammar '
        '(A[] E<> A<> E[] -->, deadlock, sup/inf/bounds with and without predicate, Pr with <>/[]/until, with constant and '
        'Pr comparison, E[..](min|max:), simulate x3, control x4, control_t* x3, E<> control, {..} control, minE/maxE, '
        'minPr/maxPr, loadStrategy, MITL) on three model flavours (symbolic, SMC, game) with typed int/bool/clock/double '
        'sub-expressions. Only inputs that parse WITHOUT any error or warning are in the domain. Oracle: s1=str(e1) does '
        'not throw; parsing s1 in the same scope adds no diagnostic and yields a tree equal to e1 (binders alpha-normalised, '
        'doubles bit-exact); str(e2)==s1. Non-trivial: >= 2 operator nodes, or any query form other than a bare "E<> id"; '
        'distinct = distinct accepted input texts. (C) libFuzzer fork-mode campaigns on fz_xml and fz_query with the "string conversion '
        'never throws or crashes" oracle inside the target: str() of every expression of every document / query the fuzzer manages to build '
        '(non-trivial there: final corpus entries that reached the grammar).')


def norm_binders(s):
    """alpha-normalise ids of symbols that are not reachable from a frame (?N/name): renumber by first occurrence"""
    m = {}

    def f(mo):
        k = mo.group(0)
        if k not in m:
            m[k] = '?%d/' % len(m)
        return m[k]
    return re.sub(r'\?\d+/', f, s)


PRELUDE = 'loadStrategy("first.strat")\nloadStrategy {a} -> {x} ("second.strat")\n'


def roundtrip(orc, model, qmode, texts):
    """-> list of verdicts per text: ('skip', why) | ('ok',) | (failure, detail).
    Texts containing a string literal are preceded, in the same document, by two queries that intern other strings
    (so that the re-parse finds its string among several)."""
    steps = [dict(entry='xml-buffer', builder='document', newxta=1, input=model, dump='none', actions='roundtrip', qmode=qmode,
                  queries=(PRELUDE if ('"' in tx and qmode == 'query') else '') + tx.replace('\n', ' ')) for tx in texts]
    r = orc.request(steps)
    if 'crash' in r:
        d = oracle.crash_descriptor(r['crash'])
        return [('crash', d['kind'] + ' ' + d['frames'])] * len(texts)
    out = []
    for st in r['steps']:
        rt = st['roundtrip'][-1]
        p1 = rt['p1']
        if p1['exc'] or p1['new_errors'] or p1['new_warnings'] or len(p1['exprs']) != 1 or p1['exprs'][0] == '()':
            out.append(('skip', (p1['msgs'] or [str(p1['exc'])])[0]))
            continue
        if 'str1_throws' in rt:
            out.append(('throws', rt['str1_throws'].split(':')[0]))
            continue
        s1 = rt['s1']
        p2 = rt.get('p2')
        if p2 is None or p2['exc'] or p2['new_errors'] or len(p2['exprs']) != 1:
            out.append(('reparse-error', '%r -> %s' % (s1, (p2['msgs'] or [str(p2['exc'])])[0] if p2 else '?')))
            continue
        if p2['new_warnings']:
            out.append(('reparse-warning', '%r -> %s' % (s1, p2['msgs'][0])))
            continue
        t1, t2 = norm_binders(p1['exprs'][0]), norm_binders(p2['exprs'][0])
        if t1 != t2:
            out.append(('tree-differs', '%r -> %s, was %s' % (s1, t2, t1)))
            continue
        if 'str2_throws' in rt:
            out.append(('throws', rt['str2_throws'].split(':')[0]))
            continue
        if rt.get('s2') != s1:
            out.append(('text-differs', '%r then %r' % (s1, rt.get('s2'))))
            continue
        out.append(('ok',))
    return out


# ---------------------------------------------------------------- (A) untyped trees
def fails_tree(orc, t, model=None, qmode='exprp'):
    # both spellings: the fully parenthesised text gives the abstract tree whatever the parser's precedence table says, so printing it puts the
    # printer's own table to the test (it must agree with the parser's, not with this harness's)
    texts = [G.render(t, 'min')]
    if qmode == 'exprp' and G.render(t, 'full') != texts[0]:
        texts.append(G.render(t, 'full'))
    for v in roundtrip(orc, model or G.ENV_XML, qmode, texts):
        if v[0] not in ('ok', 'skip'):
            return v
    return None


def localise_tree(orc, t, model=None, qmode='exprp'):
    cur = t
    while True:
        moved = False
        for pos, ch in children(cur):
            if ch[0] in ('id', 'bool'):
                continue
            if fails_tree(orc, ch, model, qmode) is not None:
                cur = ch
                moved = True
                break
        if not moved:
            break
    f = fails_tree(orc, cur, model, qmode)
    if f is None:
        cur = t
        f = fails_tree(orc, cur, model, qmode)
        if f is None:
            return None, None, None
    d = {'failure': f[0], 'root': form_of(cur)}
    if cur[0] == 'dbl':
        d['root'] = 'dbl:' + dbl_class(cur[1])
    if f[0] == 'crash':
        d['detail'] = f[1]
    k = 0
    for pos, ch in children(cur):
        if ch[0] == 'id':
            k += 1
            continue
        if fails_tree(orc, replace(cur, pos, ('id', 'c')), model, qmode) is None:
            d['child%d' % k] = form_of(ch) if ch[0] != 'dbl' else 'dbl'
        k += 1
    return d, f, cur


def dbl_class(text):
    """class of a floating literal by what its shortest exact decimal form looks like"""
    v = float(text)
    if v == int(v) and abs(v) < 1e15:
        return 'integral'
    if len(repr(v).replace('-', '').replace('.', '').lstrip('0').split('e')[0]) > 6:
        return 'more-than-6-digits'
    if 'e' in repr(v):
        return 'exponent'
    return 'short'


def test_tree(chk, st, orc, t, label):
    txt = G.render(t, 'min')
    v = roundtrip(orc, G.ENV_XML, 'exprp', [txt])[0]
    if v[0] == 'skip':
        st.extra['filtered_not_accepted'] += 1
        st.evaluations += 1
        return None
    st.case('tree:' + txt, nontrivial=G.count_ops(t) >= 2, classes=['tree', label] + ['has:' + k for k in sorted(G.kinds_in(t))][:5],
            sample={'input': txt})
    if v[0] == 'ok':
        full = G.render(t, 'full')
        if full == txt:
            return None
        v2 = roundtrip(orc, G.ENV_XML, 'exprp', [full])[0]
        st.case('tree-full:' + full, nontrivial=G.count_ops(t) >= 2, classes=['tree', 'fully-parenthesised'], sample={'input': full})
        if v2[0] in ('ok', 'skip'):
            return None
    d, f, small = localise_tree(orc, t)
    if d is None:
        st.inconclusive += 1
        return None
    what = 'expression %s: %s: %s' % (G.render(small, 'min'), f[0], f[1])
    case = {'kind': 'tree', 'tree': json.dumps(small)}
    if chk.is_known(d):
        chk.report(st, d, what, case)
        return None
    return (d, what, case)


# ---------------------------------------------------------------- (B) queries
def test_query(chk, st, orc, form, flavour, parts):
    model = Q.MODELS[flavour]
    txt = Q.qtext(parts)
    v = roundtrip(orc, model, 'query', [txt])[0]
    if v[0] == 'skip':
        st.extra['filtered_not_accepted'] += 1
        st.extra['filtered:' + form] += 1
        st.evaluations += 1
        return None
    st.case('q:' + txt, nontrivial=True, classes=['query:' + form, 'flavour:' + flavour], sample={'query': txt, 'flavour': flavour})
    if v[0] == 'ok':
        return None
    # attribute: sub-expressions alone, then the skeleton
    for kind, tree in Q.slots(parts):
        d, f, small = localise_tree(orc, tree, model, 'exprp')
        if d is not None:
            d = dict(d)
            what = 'sub-expression %s of query form %s: %s: %s' % (G.render(small, 'min'), form, f[0], f[1])
            case = {'kind': 'tree', 'tree': json.dumps(small), 'flavour': flavour}
            if chk.is_known(d):
                chk.report(st, d, what, case)
                return None
            return (d, what, case)
    sk = Q.qtext(parts, skeleton=True)
    v2 = roundtrip(orc, model, 'query', [sk])[0]
    if v2[0] not in ('ok', 'skip'):
        d = {'failure': v2[0], 'form': form, 'scope': 'skeleton'}
        what = 'query %s: %s: %s' % (sk, v2[0], v2[1])
        case = {'kind': 'query', 'text': sk, 'flavour': flavour}
    else:
        d = {'failure': v[0], 'form': form, 'scope': 'with-operands:' + '+'.join(sorted(set(form_of(t) for k, t in Q.slots(parts))))[:80]}
        what = 'query %s: %s: %s' % (txt, v[0], v[1])
        case = {'kind': 'query', 'text': txt, 'flavour': flavour}
    if chk.is_known(d):
        chk.report(st, d, what, case)
        return None
    return (d, what, case)


def worker(chk, wi, nw):
    st = common.Stats()
    orc = oracle.Oracle(os.path.join(chk.workdir, 'w%d' % wi), cpu_limit=30)
    quick = chk.tier == 'quick'

    def add(v):
        if v:
            st.violations.append({'descriptor': v[0], 'what': v[1], 'case': v[2]})

    if wi == 0:
        for p in sorted(glob.glob(os.path.join(common.VERIF, 'replays', 'C03', '*.json'))):
            rec = json.load(open(p))
            if rec['kind'] == 'tree':
                add(test_tree(chk, st, orc, tup(json.loads(rec['tree'])), 'replay'))
            else:
                add(test_query(chk, st, orc, 'replay', rec['flavour'], [rec['text']]))
    trees = G.depth2_trees()
    for i, (label, t) in enumerate(trees):
        if i % nw == wi:
            add(test_tree(chk, st, orc, t, 'enum'))
    n = 600 if quick else 12000
    common.run_hypothesis(chk, st, G.strategy(), lambda t: test_tree(chk, st, orc, t, 'random'), n, chk.seed * 1000 + wi)
    forms = Q.query_forms()
    per_form = 14 if quick else 300
    for k, (name, (flavour, strat)) in enumerate(sorted(forms.items())):
        common.run_hypothesis(chk, st, strat, lambda parts, name=name, flavour=flavour: test_query(chk, st, orc, name, flavour, parts),
                              per_form, chk.seed * 1000 + wi * 50 + k)
    orc.close()
    return st


def confirm(case):
    if case.get('kind') == 'fuzz':
        import c01_fuzz
        return c01_fuzz.confirm_fuzz(case)
    orc = oracle.Oracle(os.path.join(common.WORK, 'C03', 'confirm'), cpu_limit=30)
    try:
        if case['kind'] == 'tree':
            model = Q.MODELS[case['flavour']] if 'flavour' in case else None
            f = fails_tree(orc, tup(json.loads(case['tree'])), model)
            return ({}, f[1]) if f else None
        v = roundtrip(orc, Q.MODELS[case['flavour']], 'query', [case['text']])[0]
        return ({}, v[1]) if v[0] not in ('ok', 'skip') else None
    finally:
        orc.close()


def run(chk):
    chk.build('oracle')
    chk.rule = RULE
    chk.assumptions = ['"structurally equal" is decided on the canonical dump (kinds, operand order, symbol ids, constant bits); '
                       'expression_t::equal is reported by the server but not used as verdict for trees with binders',
                       'queries are parsed with TigaPropertyBuilder, expressions with an ExpressionBuilder that allows process references']
    chk.run_workers(worker)
    if 'nofuzz' not in os.environ.get('C03_LAYERS', ''):
        # string conversion never throws or crashes: str() on every expression of whatever documents / queries the fuzzer builds
        import c01_fuzz
        chk.build('fuzz')
        quick = chk.tier == 'quick'
        for target, runs in (('fz_xml', 15000 if quick else 500000), ('fz_query', 20000 if quick else 700000)):
            c01_fuzz.campaign(chk, target, runs, 2048 if quick else 16384, oracles='c03', seed=chk.seed + 1, prop='C03')
    chk.explanation = 'depth-2 operator-pair space enumerated; deeper trees and queries sampled; listed known findings are excluded by descriptor and counted'
    return chk.finish(confirm=confirm)


def replay(chk, path):
    chk.build('oracle')
    rec = json.load(open(path))
    case = rec.get('case', rec)
    if case.get('kind') == 'fuzz':
        chk.build('fuzz')
    r = confirm(case)
    if r:
        print('  ' + str(r[1])[:1500])
        print('VIOLATION property=C03 replay=%s' % path)
        return 1
    print('replay: no violation')
    return 0
