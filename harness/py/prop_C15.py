"""C15: a parse result depends only on its input, not on earlier parses in the process (histories)."""
import glob
import itertools
import json
import os

from hypothesis import strategies as st

import common
import gen_expr as G
import oracle

LEVEL = 'exploration'

MODEL = ('<nta><declaration>clock x; int i; bool b; chan a; const int N = 2; int f(int k){ return k+1; }</declaration>'
         '<template><name>P</name><parameter>int p</parameter><declaration>clock y; int loc;</declaration>'
         '<location id="id0"><name>L0</name><label kind="invariant">y&lt;=5</label></location><location id="id1"><name>L1</name></location>'
         '<init ref="id0"/><transition><source ref="id0"/><target ref="id1"/><label kind="guard">y&gt;=1 &amp;&amp; i &lt; N</label>'
         '<label kind="synchronisation">a!</label><label kind="assignment">i=p, y=0</label></transition>'
         '<transition><source ref="id1"/><target ref="id0"/><label kind="synchronisation">a?</label></transition></template>'
         '<system>Q = P(1); R = P(2); system Q, R;</system></nta>')
XTA = ('clock x; int i; chan a;\nprocess P(int p) {\nclock y;\nstate L0 { y <= 5 }, L1;\ninit L0;\ntrans L0 -> L1 { guard y >= 1; sync a!; assign i = p, y = 0; },\n'
       '  L1 -> L0 { sync a?; };\n}\nQ = P(1); R = P(2);\nsystem Q, R;\n')
OLD = ('<nta><declaration>clock x; int i; const N 3; chan a;</declaration><template><name>P</name><declaration>clock y;</declaration>'
       '<location id="id0"><name>L0</name><label kind="invariant">y&lt;=5</label></location><location id="id1"><name>L1</name></location><init ref="id0"/>'
       '<transition><source ref="id0"/><target ref="id1"/><label kind="guard">y&gt;=1, i&lt;N</label><label kind="assignment">i:=1, y:=0</label></transition></template>'
       '<system>system P;</system></nta>')


RICH = '''const int N = 3;
typedef int[0,N-1] id_t;
typedef scalar[2] sc_t;
typedef struct { int f; bool g[2]; } rec_t;
int a[id_t][2];
int b[id_t];
int c[2][3] = {{1,2,3},{4,5,6}};
int d[sc_t];
rec_t r = {1, {true, false}};
clock x; chan ch[id_t]; broadcast chan bc; urgent chan uc;
meta int mm; const bool cb = true;
int f(int k, const int &q, int &w) { int l[2] = {k, q}; if (k > 0) { w = l[0]; } else { w = l[1]; } for (i : id_t) { w += b[i]; } while (w > 10) w--; do { w++; } while (w < 0); return (forall (i : id_t) b[i] >= 0) ? w : -w; }
void g() { int i; for (i = 0; i < N; i++) { b[i] = i; } }
int gw;
process P(const id_t id, int &w) {
clock y; int loc[2]; int e[sc_t][id_t]; int e3[id_t][sc_t][id_t][2];
state L0 { y <= 5 }, L1 { y <= 3 ; 2 }, L2;
branchpoint B1;
commit L2;
urgent L1;
init L0;
trans L0 -> L1 { select s : id_t; guard y >= 1 && b[s] >= 0; sync ch[id]!; assign w = f(s, N, loc[0]), y = 0; },
  L1 -> B1 { },
  B1 -> L2 { probability 2; },
  B1 -> L0 { probability 1; },
  L2 -u-> L0 { sync ch[id]?; };
}
P1 = P(0, gw); P2 = P(1, gw);
system P1 < P2;
'''


def xml_with(decl=None, guard=None, system=None):
    m = MODEL
    if decl is not None:
        m = m.replace('clock x; int i; bool b; chan a; const int N = 2; int f(int k){ return k+1; }', decl)
    if guard is not None:
        m = m.replace('y&gt;=1 &amp;&amp; i &lt; N', guard)
    if system is not None:
        m = m.replace('Q = P(1); R = P(2); system Q, R;', system)
    return m


def pool():
    """name -> step dict (without dump); kinds: ok / diag / poison"""
    P = {}

    def add(name, kind, **step):
        step.setdefault('newxta', 1)
        P[name] = (kind, step)
    add('xml-valid', 'ok', entry='xml-buffer', builder='document', input=MODEL)
    add('xml-valid-builder-only', 'ok', entry='xml-buffer', builder='builder-only', input=MODEL)
    add('xml-valid-file', 'ok', entry='xml-file', builder='document', input=MODEL)
    add('xml-valid-pretty', 'ok', entry='xml-buffer', builder='pretty', input=MODEL)
    add('xta-valid', 'ok', entry='xta-buffer', builder='document', input=XTA)
    add('xta-valid-FILE', 'ok', entry='xta-file', builder='document', input=XTA)
    add('xta-valid-pretty', 'ok', entry='xta-buffer', builder='pretty', input=XTA)
    add('xml-old-syntax', 'ok', entry='xml-buffer', builder='document', input=OLD, newxta=0)
    add('xml-type-error', 'diag', entry='xml-buffer', builder='document', input=xml_with(guard='y&gt;=1 &amp;&amp; (i = 2) &gt; 0'))
    add('xml-unknown-identifier', 'diag', entry='xml-buffer', builder='document', input=xml_with(guard='nosuch &gt; 0'))
    add('xml-syntax-error-guard', 'diag', entry='xml-buffer', builder='document', input=xml_with(guard='y &gt;= ( 1'))
    add('xml-syntax-error-declaration', 'diag', entry='xml-buffer', builder='document', input=xml_with(decl='clock x; int i; bool b; chan a; const int N = 2; int f(int k){ return k+1; } int ;; int[ q;'))
    add('xml-two-errors-multiline', 'diag', entry='xml-buffer', builder='document', input=xml_with(decl='clock x;\nint i; bool b;\n\nchan a; const int N = 2;\nint f(int k){ return kk+1; }\nint g = zz;'))
    add('xta-syntax-error', 'diag', entry='xta-buffer', builder='document', input=XTA.replace('guard y >= 1;', 'guard y >= ;'))
    add('xta-unknown-identifier', 'diag', entry='xta-buffer', builder='document', input=XTA.replace('i = p', 'i = nosuch'))
    add('xml-warning-only', 'diag', entry='xml-buffer', builder='document', input=xml_with(decl='clock x; int i; bool b; chan a; const int N = 2; int f(int k){ return k+1; } int[0,1] w = 5;'))
    # poisoning steps
    add('xml-unterminated-comment-declaration', 'poison', entry='xml-buffer', builder='document', input=xml_with(decl='clock x; int i; bool b; chan a; const int N = 2; int f(int k){ return k+1; } /* never closed'))
    add('xml-unterminated-comment-guard', 'poison', entry='xml-buffer', builder='document', input=xml_with(guard='y &gt;= 1 /* open'))
    add('xta-unterminated-comment', 'poison', entry='xta-buffer', builder='document', input=XTA + '/* the end is missing')
    add('xta-unterminated-comment-FILE', 'poison', entry='xta-file', builder='document', input=XTA + '/* the end is missing')
    add('part-unterminated-comment', 'poison', entry='part', part=12, builder='expression', base=MODEL, input='i + /* 1')
    add('pretty-unterminated-comment-xta', 'poison', entry='xta-buffer', builder='pretty', input=XTA + '/* the end is missing')
    add('pretty-unterminated-comment-xml', 'poison', entry='xml-buffer', builder='pretty', input=xml_with(guard='y &gt;= 1 /* open'))
    add('pretty-unterminated-comment-part', 'poison', entry='part', part=12, builder='pretty', input='i + /* 1')
    add('pretty-unterminated-comment-declaration-part', 'poison', entry='part', part=1, builder='pretty', input='int q = 1; /* never closed')
    add('pretty-on-syntax-error', 'poison', entry='xta-buffer', builder='pretty', input=XTA.replace('guard y >= 1;', 'guard y >= ;'))
    add('pretty-on-xml-syntax-error', 'poison', entry='xml-buffer', builder='pretty', input=xml_with(guard='y &gt;= ( 1'))
    add('xml-structural-error', 'poison', entry='xml-buffer', builder='document', input=MODEL.replace('<init ref="id0"/>', '<init ref="id0">'))
    add('xml-not-xml', 'poison', entry='xml-buffer', builder='document', input='this is not xml')
    add('xml-truncated', 'poison', entry='xml-buffer', builder='document', input=MODEL[:len(MODEL) // 2])
    add('xml-missing-file', 'poison', entry='xml-file-missing', builder='document', input='')
    add('xml-import-missing-library', 'poison', entry='xml-buffer', builder='document', input=xml_with(decl='clock x; int i; bool b; chan a; const int N = 2; int f(int k){ return k+1; } import "/nonexistent/libnosuch.so" { int ext(int); };'))
    add('query-sat-on-non-lsc', 'poison', entry='prop-buffer', builder='tiga', base=MODEL, input='sat: Q')
    add('xml-label-without-kind', 'poison', entry='xml-buffer', builder='document', input=MODEL.replace('<label kind="invariant">', '<label>'))
    # queries and parts
    add('query-safety', 'ok', entry='prop-buffer', builder='tiga', base=MODEL, input='A[] Q.L0 imply x >= 0')
    add('query-two-lines', 'ok', entry='prop-buffer', builder='tiga', base=MODEL, input='E<> Q.L1\nA[] i <= 2')
    add('query-FILE', 'ok', entry='prop-file', builder='tiga', base=MODEL, input='E<> R.L1 && i == 2\n')
    add('query-smc', 'diag', entry='prop-buffer', builder='tiga', base=MODEL, input='Pr[<=10](<> Q.L1)')
    add('query-syntax-error', 'diag', entry='prop-buffer', builder='tiga', base=MODEL, input='A[] ( Q.L0')
    add('query-unknown-identifier', 'diag', entry='prop-buffer', builder='tiga', base=MODEL, input='E<> nosuch.L1')
    add('part-expression', 'ok', entry='part', part=12, builder='expression', base=MODEL, input='i + f(2) * N')
    add('part-expression-error', 'diag', entry='part', part=12, builder='expression', base=MODEL, input='i + * 2')
    add('part-declaration', 'ok', entry='part', part=1, builder='builder-only', base=MODEL, input='int q = 1; clock z;')
    add('part-declaration-error', 'diag', entry='part', part=1, builder='builder-only', base=MODEL, input='int q = ; int r;')
    add('part-empty-expression', 'diag', entry='part', part=12, builder='expression', base=MODEL, input='')
    add('rich-xta', 'ok', entry='xta-buffer', builder='document', input=RICH)
    add('rich-xta-builder-only', 'ok', entry='xta-buffer', builder='builder-only', input=RICH)
    add('rich-declarations-part', 'ok', entry='part', part=1, builder='builder-only', input=RICH[:RICH.index('process P')])
    # calls made against the document that an earlier 'xml-valid' step of the same history built (a client parses the model once and
    # then parses queries and expressions against the document it kept); their fresh reference is the pair [xml-valid, step]
    add('kept:query-safety', 'ok', entry='prop-buffer', builder='tiga', input='A[] Q.L0 imply x >= 0', reuse_of='xml-valid')
    add('kept:query-two-lines', 'ok', entry='prop-buffer', builder='tiga', input='E<> Q.L1\nA[] i <= 2', reuse_of='xml-valid')
    add('kept:query-FILE', 'ok', entry='prop-file', builder='tiga', input='E<> R.L1 && i == 2\n', reuse_of='xml-valid')
    add('kept:query-syntax-error', 'diag', entry='prop-buffer', builder='tiga', input='A[] ( Q.L0', reuse_of='xml-valid')
    add('kept:query-unknown-identifier', 'diag', entry='prop-buffer', builder='tiga', input='E<> nosuch.L1', reuse_of='xml-valid')
    add('kept:query-unterminated-comment', 'poison', entry='prop-buffer', builder='tiga', input='E<> Q.L1 /* open', reuse_of='xml-valid')
    add('kept:part-expression', 'ok', entry='part', part=12, builder='expression', input='i + f(2) * N', reuse_of='xml-valid')
    add('kept:part-unterminated-comment', 'poison', entry='part', part=12, builder='expression', input='i + /* 1', reuse_of='xml-valid')
    add('xml-empty-guard', 'diag', entry='xml-buffer', builder='document', input=xml_with(guard=' '))
    return P



def rich_poisons(stride=1):
    """the rich XTA text cut / damaged at every token position: prefixes that leave the grammar in the middle of a construct"""
    import tokenizer as T
    toks = T.tokens(RICH)
    out = []
    for k in range(0, len(toks), stride):
        kind, tx, a, b = toks[k]
        out.append(('rich-truncated@%d' % k, dict(entry='xta-buffer', builder='document', newxta=1, input=RICH[:a])))
        out.append(('rich-truncated-recover@%d' % k, dict(entry='xta-buffer', builder='document', newxta=1, input=RICH[:a] + ' ; } ; int zz;\n')))
        out.append(('rich-token-deleted@%d' % k, dict(entry='xta-buffer', builder='builder-only', newxta=1, input=RICH[:a] + RICH[b:])))
        if k % 3 == 0:
            out.append(('rich-stray-bracket@%d' % k, dict(entry='xta-buffer', builder='document', newxta=1, input=RICH[:a] + ['[ ', '( ', '{ '][(k // 3) % 3] + RICH[a:])))
        if k % 4 == 0:
            out.append(('rich-truncated-part@%d' % k, dict(entry='part', part=1, builder='builder-only', newxta=1, input=RICH[:min(a, RICH.index('process P'))])))
            out.append(('rich-truncated-pretty@%d' % k, dict(entry='xta-buffer', builder='pretty', newxta=1, input=RICH[:a])))
    return out


SEEDS = [('cross-2^31', (1 << 31) - 1), ('cross-2^32', 1 << 32)]
SEED_OFFSETS = [1, 3, 40, 400, 4000]

RULE = ('histories over a pool of %d parsing steps: whole models through parse_XML_buffer / parse_XML_file / parse_XTA(const char*) / '
        'parse_XTA(FILE*) with the Document* overloads, DocumentBuilder alone and PrettyPrinter, new and old syntax; valid inputs, '
        'inputs with type / syntax / unknown-identifier diagnostics on one and on several lines, warning-only inputs; poisoning '
        'steps: unterminated comments (declaration block, label, XTA via buffer and FILE*, single expression), PrettyPrinter on '
        'a syntax error (exception out of the grammar), XML structural errors, non-XML and truncated input, missing file, '
        'import of a missing library (sets errno), a label without kind, sat: on a non-LSC symbol; queries through '
        'parseProperty (buffer and FILE*) and single-block parses (expression, declaration; valid, faulty, empty), also against a document that an earlier step of the history built and the client kept. A history is '
        'executed in ONE process by the oracle server; every step is also executed alone in a child forked from the pristine '
        'server (fresh process). Additionally the global position counter may be seeded before a step so that the step crosses '
        '2^31-1 (the "unknown position" sentinel) or 2^32 at offsets 1, 3, 40, 400, 4000 inside its input - the stand-in for '
        'gigabytes of earlier input. Compared per step: return value, exception class, errors and warnings with message, '
        'context, path, line and column (start and end), canonical document dump, supported-methods verdict, pretty-printer '
        'output, parsed query / expression trees. All ordered (prefix, probe) pairs and all [model, step, call against the kept document] triples are enumerated in both tiers, every '
        '(seed, offset, probe) triple too; a rich XTA text (typedefs, scalar sets, type-indexed and multi-dimensional arrays, structs, functions with every statement form, a process with state lists, branchpoint, commit/urgent, select/guard/sync/assign/probability transitions) cut at every (quick: every second) token position, cut and followed by recovery tokens, with one token deleted, with a stray opening bracket, as a declaration block and through the pretty printer, each followed by a rich probe; Hypothesis draws histories of length 3..8 with seeds. Non-trivial: the history '
        'contains a poisoning step, a diagnostic-producing step or a counter seed before its last step; distinct = distinct '
        'sequences of step names.')


def record(s):
    """the observable result of one step"""
    if s is None:
        return None
    def diag(lst):
        return [(d['msg'], d['ctx'], d['path'], d['line'], d['col'], d['eline'], d['ecol']) for d in lst]
    r = {'ret': s.get('ret'), 'exc': (s.get('exc') or {}).get('class'), 'errors': diag(s.get('errors', [])), 'warnings': diag(s.get('warnings', [])),
         'methods': s.get('methods'), 'pretty': s.get('pretty'), 'exprs': s.get('exprs'),
         'properties': [(p['type'], p['expr']) for p in s.get('properties', [])] if 'properties' in s else None,
         'doc': json.dumps(s.get('doc'), sort_keys=True) if 'doc' in s else None, 'inv': s.get('inv')}
    return r


def first_diff(a, b):
    for k in a:
        if a[k] != b[k]:
            if k in ('errors', 'warnings') and isinstance(a[k], list) and isinstance(b[k], list):
                for x, y in itertools.zip_longest(a[k], b[k]):
                    if x != y:
                        fields = ['msg', 'ctx', 'path', 'line', 'col', 'eline', 'ecol']
                        if x is None or y is None:
                            return k + ':count', 'fresh %r / in history %r' % (x, y)
                        f = [fields[i] for i in range(7) if x[i] != y[i]]
                        return k + ':' + '+'.join(f), 'fresh %r / in history %r' % (x, y)
            return k, 'fresh %r / in history %r' % (str(a[k])[:300], str(b[k])[:300])
    return None


class Exec:
    def __init__(self, orc, pool_):
        self.orc = orc
        self.pool = pool_
        self.fresh = {}

    def step(self, name, seedpos=None, reuse=None):
        kind, st_ = self.pool[name]
        d = dict(st_)
        d.pop('reuse_of', None)
        if reuse is not None:
            d['reuse'] = reuse
        d['dump'] = 'doc,diag,methods,inv,exprs' if d['builder'] in ('document', 'builder-only') else 'diag,exprs'
        if d['entry'] == 'xml-file-missing':
            d['entry'] = 'xml-file'
            d['nofile'] = 1
        if seedpos is not None:
            d['seedpos'] = seedpos & 0xffffffff
        return d

    def fresh_record(self, name):
        if name not in self.fresh:
            need = self.pool[name][1].get('reuse_of')
            steps = [self.step(need), self.step(name, reuse=0)] if need else [self.step(name)]
            r = self.orc.request(steps)
            self.fresh[name] = None if 'crash' in r else record(r['steps'][-1])
            if 'crash' in r:
                self.fresh[name] = {'crash': oracle.crash_descriptor(r['crash'])['kind']}
        return self.fresh[name]

    def run_history(self, hist):
        """hist: list of (name, seedpos or None). -> list of records (or None on crash)"""
        steps = []
        for k, (n, sp) in enumerate(hist):
            need = self.pool[n][1].get('reuse_of')
            reuse = None
            if need:
                prev = [j for j in range(k) if hist[j][0] == need]
                reuse = prev[-1]       # normalise() guarantees that the needed step precedes
            steps.append(self.step(n, sp, reuse))
        r = self.orc.request(steps)
        if 'crash' in r:
            return None, oracle.crash_descriptor(r['crash'])
        return [record(s) for s in r['steps']], None


def normalise(ex, hist):
    """a step that works on a kept document is dropped unless the step that builds the document precedes it"""
    out = []
    for n, sp in hist:
        need = ex.pool[n][1].get('reuse_of')
        if need and not any(m == need for m, _ in out):
            continue
        out.append((n, sp))
    return out


def check_history(chk, stats, ex, hist, classes):
    hist = normalise(ex, hist)
    if not hist:
        return None
    names = [n for n, _ in hist]
    recs, crash = ex.run_history(hist)
    poisoned = any(ex.pool[n][0] in ('poison', 'diag') for n, _ in hist[:-1]) or any(sp is not None for _, sp in hist)
    stats.case('|'.join('%s@%s' % (n, sp) for n, sp in hist), nontrivial=poisoned, classes=classes,
               sample={'history': ['%s%s' % (n, '' if sp is None else ' [counter seeded to %d]' % sp) for n, sp in hist]})
    if recs is None:
        # a crash inside a history: if every step alone is fine this is history dependence of the worst kind
        alone = [ex.fresh_record(n) for n in names]
        if any(a is not None and 'crash' in a for a in alone):
            stats.extra['crashes_seen_(C01)'] += 1
            return None
        d = {'observable': 'crash:' + crash['kind'], 'probe': names[-1], 'prefix': prefix_kind(ex, hist)}
        return (d, 'history %r crashes (%s) although every step alone does not' % (names, crash), {'kind': 'history', 'history': hist})
    for k, ((n, sp), rec) in enumerate(zip(hist, recs)):
        fr = ex.fresh_record(n)
        if fr is None or 'crash' in fr:
            continue
        df = first_diff(fr, rec)
        if df:
            pk = prefix_kind(ex, hist[:k + 1])
            d = {'observable': df[0], 'probe': 'any' if pk.startswith('seed:') else n, 'prefix': pk}
            what = 'step %d (%s) of history %r: %s differs: %s' % (k, n, ['%s%s' % (a, '' if b is None else '@%d' % b) for a, b in hist[:k + 1]], df[0], df[1])
            return (d, what, {'kind': 'history', 'history': hist[:k + 1]})
    return None


def prefix_kind(ex, hist):
    """what precedes the last step: the latest counter seed of the history if any (once the counter has been placed just below a
    limit, this step or one of the next ones crosses it), else the name of the immediately preceding step"""
    seeds = [sp for _, sp in hist if sp is not None]
    if seeds:
        return 'seed:2^32' if seeds[-1] > (1 << 31) + 100000 else 'seed:2^31'
    if len(hist) >= 2:
        return 'after:' + hist[-2][0].split('@')[0]
    return 'first'


def worker(chk, wi, nw):
    stats = common.Stats()
    orc = oracle.Oracle(os.path.join(chk.workdir, 'w%d' % wi), cpu_limit=60)
    P = pool()
    ex = Exec(orc, P)
    names = sorted(P)

    def handle(v):
        if v is None:
            return None
        d, what, case = v
        if chk.is_known(d):
            chk.report(stats, d, what, case)
            return None
        return v

    # all ordered pairs
    pairs = [(a, b) for a in names for b in names]
    for k, (a, b) in enumerate(pairs):
        if k % nw != wi:
            continue
        v = handle(check_history(chk, stats, ex, [(a, None), (b, None)], ['enum:pair', 'prefix-kind:' + P[a][0], 'probe-kind:' + P[b][0]]))
        if v:
            stats.violations.append({'descriptor': v[0], 'what': v[1], 'case': v[2]})
    # counter seeds
    trip = [(sn, base, off, b) for (sn, base) in SEEDS for off in SEED_OFFSETS for b in names]
    for k, (sn, base, off, b) in enumerate(trip):
        if k % nw != wi:
            continue
        v = handle(check_history(chk, stats, ex, [(b, base - off)], ['enum:seed', 'seed:' + sn, 'probe-kind:' + P[b][0]]))
        if v:
            stats.violations.append({'descriptor': v[0], 'what': v[1], 'case': v[2]})

    # a kept document: [xml-valid, anything, call against the kept document]
    kept = [n for n in names if n.startswith('kept:')]
    trip2 = [(mid, kp) for mid in names for kp in kept]
    for k, (mid, kp) in enumerate(trip2):
        if k % nw != wi:
            continue
        v = handle(check_history(chk, stats, ex, [('xml-valid', None), (mid, None), (kp, None)], ['enum:kept-document', 'prefix-kind:' + P[mid][0], 'probe:' + kp]))
        if v:
            stats.violations.append({'descriptor': v[0], 'what': v[1], 'case': v[2]})
    # rich poison family: (damaged rich text, rich probe)
    rp = rich_poisons(1 if chk.tier == 'thorough' else 2)
    for name, stp in rp:
        ex.pool[name] = ('poison', stp)
    probes = ['rich-xta', 'rich-declarations-part', 'xml-valid']
    for k, (name, stp) in enumerate(rp):
        if k % nw != wi:
            continue
        pr = probes[(k // nw) % 2] if chk.tier == 'quick' else None
        for probe in ([pr] if pr else probes):
            v = handle(check_history(chk, stats, ex, [(name, None), (probe, None)], ['enum:rich-poison', 'poison:' + name.split('@')[0], 'probe:' + probe]))
            if v:
                stats.violations.append({'descriptor': v[0], 'what': v[1], 'case': v[2]})

    def test(h):
        hist = []
        last = -1
        for (name, seed) in h:
            sp = None
            if seed is not None:
                sp = SEEDS[seed[0]][1] - seed[1]
                if sp <= last + 1000000:
                    sp = None      # the counter only grows: a seed below what the history has already reached is not a history
                else:
                    last = sp
            hist.append((name, sp))
        return handle(check_history(chk, stats, ex, hist, ['random', 'length:%d' % len(hist)]))

    seed_s = st.one_of(st.none(), st.none(), st.none(), st.tuples(st.integers(0, 1), st.sampled_from(SEED_OFFSETS + [0, 2, 7, 100, 1000])))
    strat = st.lists(st.tuples(st.sampled_from(names), seed_s), min_size=3, max_size=8)
    common.run_hypothesis(chk, stats, strat, test, 90 if chk.tier == 'quick' else 2000, chk.seed * 1000 + wi)
    orc.close()
    return stats


def confirm(case):
    orc = oracle.Oracle(os.path.join(common.WORK, 'C15', 'confirm'), cpu_limit=60)
    try:
        ex = Exec(orc, pool())
        for name, stp in rich_poisons(1):
            ex.pool[name] = ('poison', stp)
        st_ = common.Stats()

        class Dummy:
            pass
        v = check_history(Dummy(), st_, ex, [tuple(x) for x in case['history']], [])
        return (v[0], v[1]) if v else None
    finally:
        orc.close()


def run(chk):
    chk.build('oracle')
    chk.rule = RULE % len(pool())
    chk.assumptions = ['the position counter is seeded (exported global UTAP::tracker) instead of parsing gigabytes; this assumes the counter is the only carrier of "how much was parsed before"',
                       'exception text and errno are not compared (the statement says exception class); absolute positions are not compared, lines and columns are',
                       'the fresh-process reference is a child forked from the server process that has never parsed anything']
    for p in sorted(glob.glob(os.path.join(common.VERIF, 'replays', 'C15', '*.json'))):
        rec = json.load(open(p))
        case = rec.get('case', rec)
        chk.stats.case('replay:' + os.path.basename(p), True, ['replay'])
        r = confirm(case)
        if r:
            chk.report(chk.stats, {'observable': 'replay', 'probe': os.path.basename(p), 'prefix': 'replay'}, r[1], case)
    chk.run_workers(worker)
    chk.explanation = 'all ordered pairs of the step pool and all (seed, offset, probe) triples are enumerated; longer histories are sampled'
    return chk.finish(confirm=confirm)


def replay(chk, path):
    chk.build('oracle')
    rec = json.load(open(path))
    case = rec.get('case', rec)
    r = confirm(case)
    if r:
        print('  ' + str(r[1])[:1500])
        print('VIOLATION property=C15 replay=%s' % path)
        return 1
    print('replay: no violation')
    return 0
