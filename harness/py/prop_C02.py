"""C02: parsed expression trees follow the language's precedence/associativity; literals are exact."""
import glob
import json
import re
import os
import struct

import common
import gen_expr as G
import oracle

LEVEL = 'exploration'
RULE = ('abstract expression trees over the full operator set (24 binary spellings incl. and/or/xor/imply, 12 assignment '
        'spellings incl. :=, unary - + ! not, pre/post ++ --, ?:, indexing, field access, calls, 62 builtin functions, '
        "forall/exists/sum, rate x') are rendered (a) with only the parentheses the reference operator table requires and "
        '(b) fully parenthesised, parsed through parse_XTA(S_EXPRESSION) with an ExpressionBuilder (and as a query / update '
        'label / initialiser in the other contexts) and the resulting tree is compared with the abstract tree. Enumerated: '
        'every (parent form, operand slot, child form) triple at depth 2; random: Hypothesis recursive trees up to 12 leaves. '
        'Literals: boundary integer texts and floating texts compared bit-for-bit with correctly rounded conversion. '
        'Non-trivial: at least 2 operator nodes and the two renderings differ as text (precedence/associativity decided the '
        'parse), or a literal boundary case; distinct = distinct canonical trees.')

CONTEXTS_QUICK = ['expr', 'xml-label']
CONTEXTS_THOROUGH = ['expr', 'query', 'assign', 'init', 'xml-label']


def xml_label_model(tx):
    """the expression as the assignment label of an edge of an XML model, its character data spelled in one of six ways (chosen by the text)"""
    from xml.sax.saxutils import escape
    import zlib
    v = zlib.crc32(tx.encode()) % 6
    cut = tx.find(' ', len(tx) // 3)
    cut = len(tx) if cut < 0 else cut
    a_, b_ = tx[:cut], tx[cut:]
    ok = ']]>' not in tx
    if v == 1 and ok:
        data = '<![CDATA[' + tx + ']]>'
    elif v == 2 and ok:
        data = escape(a_) + '<![CDATA[' + b_ + ']]>'
    elif v == 3 and ok:
        data = '<![CDATA[' + a_ + ']]>' + escape(b_)
    elif v == 4:
        data = escape(a_) + '<!-- c -->' + escape(b_)
    elif v == 5:
        data = escape(tx).replace('<', '&#60;').replace('&lt;', '&#60;').replace('&gt;', '&#x3E;')
    else:
        data = escape(tx)
    return G.ENV_XML.replace('<target ref="id1"/>', '<target ref="id1"/><label kind="assignment">' + data + '</label>', 1)


def parse_in_context(orc, ctx, texts):
    """Parse each text in the given context in ONE child; returns list of (errors:int, tree:str|None)."""
    steps = []
    for tx in texts:
        if ctx == 'expr':
            steps.append(dict(entry='part', part=12, builder='expression', newxta=1, base=G.ENV_XML, input=tx, dump='exprs'))
        elif ctx == 'assign':
            steps.append(dict(entry='part', part=13, builder='expression', newxta=1, base=G.ENV_XML, input=tx, dump='exprs'))
        elif ctx == 'query':
            steps.append(dict(entry='xml-buffer', builder='document', newxta=1, input=G.ENV_XML, dump='none', actions='queries',
                              queries='E<> ' + tx.replace('\n', ' ')))
        elif ctx == 'init':
            steps.append(dict(entry='part', part=1, builder='builder-only', newxta=1, base=G.ENV_XML, input='int zz = ' + tx + ';',
                              dump='doc'))
        elif ctx == 'xml-label':
            steps.append(dict(entry='xml-buffer', builder='builder-only', newxta=1, input=xml_label_model(tx), dump='doc'))
    r = orc.request(steps)
    if 'crash' in r:
        return None, r
    out = []
    for st in r['steps']:
        if ctx in ('expr', 'assign'):
            ex = st.get('exprs') or []
            out.append((st.get('n_errors', 0), ex[0] if ex else None, st.get('exc')))
        elif ctx == 'query':
            q = st['queries'][0]
            tree = q['exprs'][0] if q['exprs'] else None
            if tree and tree.startswith('(EF '):
                tree = tree[4:-1]
            out.append((q['new_errors'], tree, q.get('exc'), [m for m in q.get('msgs', [])]))
        elif ctx == 'init':
            vs = [v for v in st['doc']['globals']['variables'] if v['name'] == 'zz']
            out.append((st.get('n_errors', 0), vs[0]['init'] if vs else None, st.get('exc')))
        elif ctx == 'xml-label':
            es = st['doc']['templates'][0]['edges'] if st.get('doc') and st['doc']['templates'] else []
            out.append((st.get('n_errors', 0), es[0].get('assign') if es else None, st.get('exc')))
    return out, r


def check_tree(orc, t, ctx='expr'):
    """-> None if both renderings parse to the abstract tree, else (mode, failure, detail)."""
    exp = G.canon(t)
    rmin, rfull = G.render(t, 'min'), G.render(t, 'full')
    res, raw = parse_in_context(orc, ctx, [rmin, rfull])
    if res is None:
        return ('min+full', 'crash', oracle.crash_descriptor(raw['crash'])['kind'])
    for mode, text, r_ in zip(('min', 'full'), (rmin, rfull), res):
        nerr, tree, exc = r_[0], r_[1], r_[2]
        if ctx == 'query' and tree is None and nerr and not exc and not any('syntax_error' in m for m in r_[3]):
            # a query is type checked while it is built: a semantically rejected expression (side effect, type error) leaves no
            # tree to compare; that is C11 / the type system, not the grammar. Counted, not judged.
            return ('filtered', 'query-rejected-semantically', text)
        if exc:
            return (mode, 'throws', '%s: %s' % (exc.get('class'), text))
        if tree != exp:
            if tree is None or nerr:
                return (mode, 'parse-error', '%s -> %d error(s), tree %s' % (text, nerr, tree))
            return (mode, 'tree-differs', '%s -> %s, expected %s' % (text, tree, exp))
    return None


def form_of(t):
    k = t[0]
    if k in ('bin', 'asg', 'un', 'pre', 'post'):
        return k + ':' + t[1]
    if k == 'q':
        return 'q:' + t[1]
    if k == 'int':
        return 'int-min' if t[1] < 0 else 'int'
    return k


def children(t):
    """list of (setter, child) for every subtree operand"""
    out = []
    for i, x in enumerate(t):
        if isinstance(x, tuple):
            out.append(((i, None), x))
        elif isinstance(x, list):
            for j, y in enumerate(x):
                out.append(((i, j), y))
    return out


def replace(t, pos, new):
    i, j = pos
    l = list(t)
    if j is None:
        l[i] = new
    else:
        ll = list(l[i])
        ll[j] = new
        l[i] = ll
    return tuple(l)


def judged_tree(orc, t, ctx):
    """check_tree without the verdict-free 'filtered' outcome"""
    f = check_tree(orc, t, ctx)
    return None if (f is not None and f[0] == 'filtered') else f


def localise(orc, t, ctx):
    """smallest failing subtree all of whose children pass + relevant child positions -> descriptor"""
    cur = t
    while True:
        moved = False
        for pos, ch in children(cur):
            if ch[0] in ('id', 'int', 'dbl', 'bool'):
                continue
            if judged_tree(orc, ch, ctx) is not None:
                cur = ch
                moved = True
                break
        if not moved:
            break
    f = judged_tree(orc, cur, ctx)
    if f is None:
        # only fails in the context of its parent: describe the original
        cur = t
        f = judged_tree(orc, cur, ctx)
        if f is None:
            return None, None, None
    d = {'mode': f[0], 'failure': f[1], 'root': form_of(cur), 'context': ctx}
    k = 0
    for pos, ch in children(cur):
        if ch[0] == 'id':
            k += 1
            continue
        if judged_tree(orc, replace(cur, pos, ('id', 'c')), ctx) is None:
            d['child%d' % k] = form_of(ch)
        k += 1
    return d, f, cur


def test_tree(chk, st, orc, t, ctx, enum_label=None):
    """Run one tree; record stats; returns violation triple or None."""
    exp = G.canon(t)
    if ctx == 'query' and re.search(r'\bxor\b', G.render(t, 'min')):
        # keywords.cpp gives 'xor' to the model syntax only (syntax_t::NEW; and / or / not / imply are OLD_NEW_PROPERTY): in a query the word is an
        # identifier, the text is not a syntactically valid expression there and lies outside the statement
        st.extra['query_context_xor_is_not_a_keyword_there_(not_judged)'] += 1
        st.evaluations += 1
        return None
    nops = G.count_ops(t)
    differ = G.render(t, 'min') != G.render(t, 'full')
    st.case(exp + '|' + ctx, nontrivial=(nops >= 2 and differ),
            classes=['ctx:' + ctx] + (['enum'] if enum_label else ['random']) + ['has:' + k for k in sorted(G.kinds_in(t))][:6],
            sample={'min': G.render(t, 'min'), 'full': G.render(t, 'full'), 'tree': exp, 'context': ctx})
    f = check_tree(orc, t, ctx)
    if f is None:
        return None
    if f[0] == 'filtered':
        st.extra['query_context_rejected_semantically_(not_judged)'] += 1
        return None
    d, f2, small = localise(orc, t, ctx)
    if d is None:
        st.inconclusive += 1
        return None
    what = '%s rendering of %s in context %s: %s' % (f2[0], G.render(small, 'full'), ctx, f2[2])
    case = {'kind': 'tree', 'tree': json.dumps(small), 'context': ctx}
    if chk.is_known(d):
        chk.report(st, d, what, case)
        return None
    return (d, what, case)


def tup(x):
    if isinstance(x, list) and x and isinstance(x[0], str):
        return tuple(tup(y) for y in x)
    if isinstance(x, list):
        return [tup(y) for y in x]
    return x


# ---------------------------------------------------------------- literals
INT_TEXTS = ['0', '00', '007', '1', '2147483647', '02147483647', '2147483646', '2147483648', '2147483649', '4294967295', '4294967296',
             '4294967297', '9223372036854775807', '9223372036854775808', '18446744073709551616', '99999999999999999999',
             '0000000000000000000012', '10000000000', '3000000000', '-2147483648', '- 2147483648', '-2147483649', '-02147483648']
DBL_TEXTS = ['0.1', '1e5', '1E5', '1e+5', '1e-5', '3.14159265358979323846', '1.7976931348623157e308', '4.9e-324', '5e-324',
             '2.2250738585072014e-308', '2.2250738585072011e-308', '0.30000000000000004', '123456789012345678.0', '1e23', '9007199254740993.0',
             '0.1e1', '0.0', '0e0', '00.5', '1.0', '100000.0', '8.41e21', '2.4703282292062328e-324', '1e22', '1e-7',
             '0.000001', '1.5e3', '6.02214076e23', '179769313486231570000000000000000000000.0']


def int_expected(text):
    s = text.replace(' ', '')
    neg = s.startswith('-')
    digits = s[1:] if neg else s
    v = int(digits)
    if neg:
        if v == 2147483648:
            return '(CONSTANT -2147483648)'
        if v <= 2147483647:
            return '(UNARY_MINUS (CONSTANT %d))' % v
        return 'diagnostic'
    if v <= 2147483647:
        return '(CONSTANT %d)' % v
    return 'diagnostic'


def check_literal(chk, st, orc, text, kind):
    res, raw = parse_in_context(orc, 'expr', [text])
    st.case('lit:' + text, nontrivial=True, classes=['literal:' + kind], sample={'literal': text})
    if res is None:
        d = {'mode': 'literal', 'failure': 'crash', 'root': kind, 'context': 'expr'}
        chk.report(st, d, 'literal %s crashes: %s' % (text, raw['crash'].get('stderr', '')[:500]), {'kind': 'literal', 'text': text, 'lit': kind})
        return
    nerr, tree, exc = res[0]
    if kind == 'int':
        exp = int_expected(text)
        ok = (nerr > 0) if exp == 'diagnostic' else (nerr == 0 and tree == exp)
    else:
        exp = '(CONSTANT d:%s)' % G.hexfloat(text)
        ok = nerr == 0 and tree == exp
    if not ok:
        cls = 'too-big' if (kind == 'int' and exp == 'diagnostic') else ('int-min' if '-' in text else 'plain')
        d = {'mode': 'literal', 'failure': 'value-differs' if nerr == 0 else 'rejected', 'root': kind + ':' + cls, 'context': 'expr'}
        chk.report(st, d, 'literal %s -> %d error(s), tree %s; expected %s' % (text, nerr, tree, exp), {'kind': 'literal', 'text': text, 'lit': kind})


# ---------------------------------------------------------------- workers
def worker(chk, wi, nw):
    st = common.Stats()
    orc = oracle.Oracle(os.path.join(chk.workdir, 'w%d' % wi), cpu_limit=30)
    contexts = CONTEXTS_QUICK if chk.tier == 'quick' else CONTEXTS_THOROUGH
    # replays
    if wi == 0:
        for p in sorted(glob.glob(os.path.join(common.VERIF, 'replays', 'C02', '*.json'))):
            rec = json.load(open(p))
            v = test_tree(chk, st, orc, tup(json.loads(rec['tree'])), rec.get('context', 'expr'), enum_label='replay')
            if v:
                st.violations.append({'descriptor': v[0], 'what': v[1], 'case': v[2]})
    # enumeration (both tiers)
    trees = G.depth2_trees()
    for ctx in contexts:
        for i, (label, t) in enumerate(trees):
            if i % nw != wi:
                continue
            v = test_tree(chk, st, orc, t, ctx, enum_label=label)
            if v:
                st.violations.append({'descriptor': v[0], 'what': v[1], 'case': v[2]})
    st.extra['depth2_triples'] += len(trees) if wi == 0 else 0
    # literals
    lits = [(t, 'int') for t in INT_TEXTS] + [(t, 'dbl') for t in DBL_TEXTS]
    for i, (tx, kind) in enumerate(lits):
        if i % nw == wi:
            check_literal(chk, st, orc, tx, kind)
    for i, body in enumerate(DYN_BODIES):
        if i % nw == wi:
            check_dynamic_body(chk, st, orc, body)
    # random
    from hypothesis import strategies as hs
    n = (1400 if chk.tier == 'quick' else 25000)
    for ctx in contexts:
        def test(t, ctx=ctx):
            return test_tree(chk, st, orc, t, ctx)
        common.run_hypothesis(chk, st, G.strategy(), test, n // len(contexts), chk.seed * 1000 + wi)
    # random literals
    def test_dbl(x):
        for fmt in (repr(x), '%.17g' % x, '%.25e' % x):
            if 'e' in fmt and '.' not in fmt.split('e')[0]:
                pass
            if 'inf' in fmt or 'nan' in fmt:
                return None
            if '.' not in fmt and 'e' not in fmt:
                fmt += '.0'
            check_literal(chk, st, orc, fmt, 'dbl')
        return None
    common.run_hypothesis(chk, st, hs.floats(min_value=0, allow_nan=False, allow_infinity=False), test_dbl,
                          60 if chk.tier == 'quick' else 1500, chk.seed * 1000 + 500 + wi)
    orc.close()
    return st


# ---------------------------------------------------------------- quantifiers over the instances of a dynamic template
DYN_XML = ('<nta><declaration>dynamic Child(const int id); int g; int ga[3];</declaration><template><name>Parent</name><location id="id0"><name>A</name></location><init ref="id0"/>'
           '<transition><source ref="id0"/><target ref="id0"/><label kind="assignment">spawn Child(g)</label></transition></template>'
           '<template><name>Child</name><parameter>const int id</parameter><declaration>clock x; int c; int ca[3];</declaration><location id="id2"><name>C0</name></location><init ref="id2"/></template>'
           '<system>P = Parent(); system P;</system></nta>')
DYN_BODIES = ['p.c', 'p.c + 1', '1 + p.c', 'p.c * 2 + g', 'g - p.c - 1', 'p.c > 0 ? 1 : 0', '-p.c', 'p.ca[1]', 'p.ca[g] + ga[p.c]', 'p.c << 1 | g', 'p.c <? g', 'p.c ** 2', 'abs(p.c)', 'g + p.c * p.c']


def check_dynamic_body(chk, st, orc, body):
    """sum (p : T) BODY: like every quantifier the body extends as far to the right as it can, i.e. the text without parentheses around the body
    gives the tree of the text with them"""
    qs = ['simulate [<=10] { sum (p : Child) %s }' % body, 'simulate [<=10] { sum (p : Child) (%s) }' % body]
    r = orc.request([dict(entry='xml-buffer', builder='document', newxta=1, input=DYN_XML, dump='none', actions='queries', queries=q) for q in qs])   # one document each
    st.case('dyn:' + body, nontrivial=True, classes=['dynamic-quantifier-body'], sample={'min': qs[0], 'full': qs[1]})
    case = {'kind': 'dynamic-body', 'body': body}
    if 'crash' in r:
        chk.report(st, {'mode': 'dynamic-sum', 'failure': 'crash', 'root': 'SUM_DYNAMIC', 'context': 'query'}, 'sum over a dynamic template with body %s crashes: %s' % (body, r['crash'].get('stderr', '')[:300]), case)
        return
    a, b = r['steps'][0]['queries'][0], r['steps'][1]['queries'][0]
    for q in (a, b):      # the dump numbers the binder symbols of a request; the two queries have one each
        q['exprs'] = [re.sub(r'@\?\d+/', '@?/', x) for x in (q.get('exprs') or [])]
    if b.get('msgs') or not b.get('exprs'):
        st.extra['dynamic_body_reference_not_accepted'] += 1
        return
    if a.get('msgs') or a.get('exprs') != b.get('exprs'):
        chk.report(st, {'mode': 'dynamic-sum', 'failure': 'tree-differs' if not a.get('msgs') else 'rejected', 'root': 'SUM_DYNAMIC', 'context': 'query'},
                   '%s -> %s %r, expected the tree of %s: %s' % (qs[0], (a.get('exprs') or ['-'])[0], a.get('msgs'), qs[1], b['exprs'][0]), case)


def confirm(case):
    orc = oracle.Oracle(os.path.join(common.WORK, 'C02', 'confirm'), cpu_limit=30)
    try:
        if case['kind'] == 'dynamic-body':
            st = common.Stats()
            chk = common.Check('C02', 'quick', 0)
            check_dynamic_body(chk, st, orc, case['body'])
            return ({}, st.violations[0]['what']) if st.violations else None
        if case['kind'] == 'tree':
            f = judged_tree(orc, tup(json.loads(case['tree'])), case.get('context', 'expr'))
            return ({}, f[2]) if f else None
        st = common.Stats()
        chk = common.Check('C02', 'quick', 0)
        check_literal(chk, st, orc, case['text'], case['lit'])
        return ({}, st.violations[0]['what']) if st.violations else None
    finally:
        orc.close()


def run(chk):
    chk.build('oracle')
    chk.rule = RULE
    chk.assumptions = ['the reference operator table in harness/py/gen_expr.py is the language definition (validated on hand-picked inputs, see DESIGN C02)',
                       'floating reference: Python float() (correctly rounded IEEE-754 binary64)']
    chk.run_workers(worker)
    chk.explanation = 'the depth-2 (parent form, slot, child form) space is enumerated completely in every listed context; deeper trees are sampled'
    return chk.finish(confirm=confirm)


def replay(chk, path):
    chk.build('oracle')
    rec = json.load(open(path))
    case = rec.get('case', rec)
    r = confirm(case)
    if r:
        print('  ' + r[1][:1500])
        print('VIOLATION property=C02 replay=%s' % path)
        return 1
    print('replay: no violation')
    return 0
