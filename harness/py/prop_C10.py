"""C10: only convex clock constraints are accepted as guards and invariants."""
import glob
import itertools
import json
import os
import re

from hypothesis import strategies as st

import common
import gen_expr as G
import oracle

LEVEL = 'exploration'

DECL = 'clock x, y; int i; bool b; int a[3];'
# atoms: (class, tree)   classes: int = integer predicate, clk = clock bound, dif = clock difference bound
ID = lambda n: ('id', n)
ATOMS = {
    'int': [('bin', '<', ID('i'), ('int', 3)), ID('b'), ('bin', '==', ('idx', ID('a'), ('int', 0)), ('int', 1)), ('bool', 1)],
    'clk': [('bin', op, ID('x'), ('int', 3)) for op in ('<', '<=', '==', '>=', '>')] + [('bin', '<=', ID('y'), ID('i'))] +
           [('bin', op, ('int', 2), ID('x')) for op in ('<', '<=', '==', '>=', '>')] + [('bin', '>=', ID('i'), ID('y'))],
    'dif': [('bin', op, ('bin', '-', ID('x'), ID('y')), ('int', 2)) for op in ('<', '<=', '==', '>=', '>')] +
           [('bin', op, ('int', 2), ('bin', '-', ID('y'), ID('x'))) for op in ('<', '<=', '==', '>=', '>')] + [('bin', '<', ('bin', '-', ID('x'), ID('y')), ID('i'))],
}
BINOPS = ['&&', '||', 'imply', 'xor', '==', '!=']
RULE = ('boolean formula trees over leaves {integer predicate, clock bound x~c, clock difference x-y~c} (all five relational '
        'operators) with connectives && || ! imply xor == != and forall/exists (binder k : int[0,2], usable in atoms), rendered '
        'fully parenthesised and placed as an edge guard and as a location invariant of an otherwise accepted model (up to 40 '
        'formulas per model, one edge and one location each; a formula\'s verdict is the presence of an error whose path is its '
        'own label; any apparent violation is re-run alone in its own model). Reference classifier: must_reject = some clock '
        'atom lies under !, in an imply antecedent, under exists, under a connective ==, != or xor, or under a || both of '
        'whose operands contain a clock atom; must_accept = a plain conjunction of atoms each accepted alone in that position '
        '(measured); everything else is unconstrained by the statement and only counted. All trees of depth <= 2 over one '
        'representative leaf per class are enumerated in both tiers, and every atom (five relational operators, clock or difference on the left or on the right, constant or variable bound) is placed under every connective on either side; Hypothesis draws trees of depth <= 4 over all atoms. '
        'Non-trivial: >= 1 clock atom and >= 1 connective other than &&; distinct = (formula text, position).')


def is_atom(t):
    return t[0] in ('id', 'bool', 'idx') or (t[0] == 'bin' and t[1] in ('<', '<=', '>=', '>') ) or (t[0] == 'bin' and t[1] == '==' and t[-1] == 'atom')


class F:
    """formula node: ('atom', cls, tree) | ('not', f) | ('bin', op, f, g) | ('q', kw, f)"""


def has_clock(f):
    if f[0] == 'atom':
        return f[1] in ('clk', 'dif')
    if f[0] == 'not':
        return has_clock(f[1])
    if f[0] == 'bin':
        return has_clock(f[2]) or has_clock(f[3])
    return has_clock(f[2])


def clock_in_bad_position(f, bad=False):
    k = f[0]
    if k == 'atom':
        return bad and f[1] in ('clk', 'dif')
    if k == 'not':
        return clock_in_bad_position(f[1], True)
    if k == 'q':
        return clock_in_bad_position(f[2], bad or f[1] == 'exists')
    op, l, r = f[1], f[2], f[3]
    if op == '&&':
        return clock_in_bad_position(l, bad) or clock_in_bad_position(r, bad)
    if op == '||':
        both = has_clock(l) and has_clock(r)
        return clock_in_bad_position(l, bad or both) or clock_in_bad_position(r, bad or both)
    if op == 'imply':
        return clock_in_bad_position(l, True) or clock_in_bad_position(r, bad)
    return clock_in_bad_position(l, True) or clock_in_bad_position(r, True)   # == != xor


def conj_atoms(f):
    """atoms of a plain conjunction, or None"""
    if f[0] == 'atom':
        return [f]
    if f[0] == 'bin' and f[1] == '&&':
        a, b = conj_atoms(f[2]), conj_atoms(f[3])
        return None if a is None or b is None else a + b
    return None


def to_tree(f):
    k = f[0]
    if k == 'atom':
        return f[2]
    if k == 'not':
        return ('un', '!', to_tree(f[1]))
    if k == 'q':
        return ('q', f[1], 'k', 'int[0,2]', to_tree(f[2]))
    return ('bin', f[1], to_tree(f[2]), to_tree(f[3]))


def text_of(f):
    return G.render(to_tree(f), 'full')


def connectives(f, acc=None):
    acc = acc if acc is not None else []
    if f[0] == 'not':
        acc.append('!')
        connectives(f[1], acc)
    elif f[0] == 'q':
        acc.append(f[1])
        connectives(f[2], acc)
    elif f[0] == 'bin':
        acc.append(f[1])
        connectives(f[2], acc)
        connectives(f[3], acc)
    return acc


def model_xml(texts):
    esc = lambda s: s.replace('&', '&amp;').replace('<', '&lt;').replace('>', '&gt;')
    out = ['<nta><declaration>%s</declaration><template><name>P</name>' % DECL]
    for k, t in enumerate(texts):
        out.append('<location id="id%d"><name>L%d</name><label kind="invariant">%s</label></location>' % (k, k, esc(t)))
    out.append('<location id="idz"><name>Lz</name></location><init ref="idz"/>')
    for k, t in enumerate(texts):
        out.append('<transition><source ref="idz"/><target ref="idz"/><label kind="guard">%s</label></transition>' % esc(t))
    out.append('</template><system>system P;</system></nta>')
    return ''.join(out)


def verdicts(orc, texts):
    """-> list of (guard_errors, invariant_errors) message lists per formula, or None on crash/exception"""
    r = orc.request([dict(entry='xml-buffer', builder='document', newxta=1, input=model_xml(texts), dump='diag')])
    if 'crash' in r or r['steps'][0].get('exc'):
        return None
    g = [[] for _ in texts]
    v = [[] for _ in texts]
    other = []
    for e in r['steps'][0]['errors']:
        m = re.match(r'^/nta/template\[1\]/(location|transition)\[(\d+)\]/label\[1\]$', e['path'])
        if not m or int(m.group(2)) > len(texts):
            other.append(e)
            continue
        (v if m.group(1) == 'location' else g)[int(m.group(2)) - 1].append(e['msg'])
    if other:
        return None
    return list(zip(g, v))


class Judge:
    def __init__(self, orc, stats):
        self.orc = orc
        self.stats = stats
        self.atom_ok = {}

    def measure_atoms(self):
        atoms = [('atom', c, t) for c, lst in ATOMS.items() for t in lst]
        for kvar in (('bin', '<', ID('x'), ID('k')), ('bin', '<=', ('bin', '-', ID('x'), ID('y')), ID('k')), ('bin', '>', ('idx', ID('a'), ID('k')), ('int', 0))):
            pass
        res = verdicts(self.orc, [text_of(a) for a in atoms])
        for a, (ge, ie) in zip(atoms, res):
            self.atom_ok[(text_of(a), 'guard')] = not ge
            self.atom_ok[(text_of(a), 'invariant')] = not ie

    def expectation(self, f, pos):
        if clock_in_bad_position(f):
            return 'reject'
        ca = conj_atoms(f)
        if ca is not None and all(self.atom_ok.get((text_of(a), pos)) for a in ca):
            return 'accept'
        return 'free'

    def judge(self, chk, formulas):
        """formulas: list of formula nodes; returns list of new violations (descriptor, what, case)"""
        texts = [text_of(f) for f in formulas]
        res = verdicts(self.orc, texts)
        if res is None:
            # isolate: one formula per model
            res = []
            for t in texts:
                r1 = verdicts(self.orc, [t])
                res.append(r1[0] if r1 else None)
        out = []
        for f, t, r in zip(formulas, texts, res):
            if r is None:
                self.stats.extra['crash_or_exception_(not_judged)'] += 1
                continue
            conns = connectives(f)
            nt = has_clock(f) and any(c != '&&' for c in conns)
            for pos, errs in (('guard', r[0]), ('invariant', r[1])):
                exp = self.expectation(f, pos)
                self.stats.case(t + '|' + pos, nontrivial=nt, classes=['expect:' + exp, 'position:' + pos, 'verdict:' + ('rejected' if errs else 'accepted')] +
                                ['connective:' + c for c in sorted(set(conns))],
                                sample={'formula': t, 'position': pos, 'expected': exp, 'errors': errs[:2]})
                bad = (exp == 'reject' and not errs) or (exp == 'accept' and errs)
                if not bad:
                    continue
                # confirm alone
                r1 = verdicts(self.orc, [t])
                if r1 is None:
                    continue
                errs1 = r1[0][0] if pos == 'guard' else r1[0][1]
                if (exp == 'reject' and errs1) or (exp == 'accept' and not errs1):
                    self.stats.extra['cross_talk_between_formulas_in_one_model'] += 1
                    continue
                d = {'expected': exp, 'position': pos, 'shape': shape_of(f)}
                what = ('%s %r is accepted although a clock comparison lies in a non-convex position' % (pos, t)) if exp == 'reject' else \
                       ('%s %r (a plain conjunction of atoms accepted alone) is rejected: %r' % (pos, t, errs1[:2]))
                case = {'kind': 'formula', 'text': t, 'position': pos, 'expected': exp}
                if chk.is_known(d):
                    chk.report(self.stats, d, what, case)
                else:
                    out.append((d, what, case))
        return out


def shape_of(f):
    """connective skeleton with atom classes (descriptor for known findings)"""
    k = f[0]
    if k == 'atom':
        return f[1]
    if k == 'not':
        return '!(%s)' % shape_of(f[1])
    if k == 'q':
        return '%s(%s)' % (f[1], shape_of(f[2]))
    return '(%s %s %s)' % (shape_of(f[2]), f[1], shape_of(f[3]))


def depth2():
    leaves = [('atom', 'int', ATOMS['int'][0]), ('atom', 'clk', ATOMS['clk'][1]), ('atom', 'dif', ATOMS['dif'][0])]

    def grow(prev):
        out = list(prev)
        for f in prev:
            out.append(('not', f))
            out.append(('q', 'forall', f))
            out.append(('q', 'exists', f))
        for op in BINOPS:
            for l, r in itertools.product(prev, prev):
                out.append(('bin', op, l, r))
        return out
    d1 = grow(leaves)
    d2 = grow(d1)
    seen = set()
    res = []
    for f in d2:
        t = text_of(f)
        if t not in seen:
            seen.add(t)
            res.append(f)
    return res


def atom_sweep():
    """every atom (every relational operator, clock or difference on either side) under every connective, on either side of it"""
    atoms = [('atom', c, t) for c, lst in ATOMS.items() for t in lst]
    partners = [('atom', 'int', ATOMS['int'][0]), ('atom', 'clk', ATOMS['clk'][1])]
    out = []
    for a in atoms:
        out += [('not', a), ('q', 'forall', a), ('q', 'exists', a), ('not', ('not', a))]
        for op in BINOPS:
            for p_ in partners:
                out.append(('bin', op, a, p_))
                out.append(('bin', op, p_, a))
    return out


def formula_strategy():
    atoms = [('atom', c, t) for c, lst in ATOMS.items() for t in lst]
    # atoms that use the quantifier binder are only meaningful under a quantifier: generated by substitution below
    leaf = st.sampled_from(atoms)

    def ext(ch):
        return st.one_of(
            st.tuples(st.sampled_from(BINOPS + ['&&', '&&', '||']), ch, ch).map(lambda x: ('bin', x[0], x[1], x[2])),
            ch.map(lambda f: ('not', f)),
            st.tuples(st.sampled_from(['forall', 'exists']), ch).map(lambda x: ('q', x[0], x[1])))
    return st.recursive(leaf, ext, max_leaves=8)


def worker(chk, wi, nw):
    stats = common.Stats()
    orc = oracle.Oracle(os.path.join(chk.workdir, 'w%d' % wi), cpu_limit=60)
    j = Judge(orc, stats)
    j.measure_atoms()
    if wi == 0:
        stats.notes['atoms_accepted_alone'] = {'%s as %s' % k: v for k, v in sorted(j.atom_ok.items())}
    allf = depth2() + atom_sweep()
    mine = [f for k, f in enumerate(allf) if k % nw == wi]
    for k in range(0, len(mine), 40):
        for v in j.judge(chk, mine[k:k + 40]):
            stats.violations.append({'descriptor': v[0], 'what': v[1], 'case': v[2]})
    stats.extra['enumerated_depth2_formulas'] += len(mine)

    def test(fs):
        vs = j.judge(chk, fs)
        return vs[0] if vs else None

    n = 25 if chk.tier == 'quick' else 500
    common.run_hypothesis(chk, stats, st.lists(formula_strategy(), min_size=20, max_size=40), test, n, chk.seed * 1000 + wi, shrink=False)
    orc.close()
    return stats


def confirm(case):
    orc = oracle.Oracle(os.path.join(common.WORK, 'C10', 'confirm'), cpu_limit=30)
    try:
        r = verdicts(orc, [case['text']])
        if r is None:
            return None
        errs = r[0][0] if case['position'] == 'guard' else r[0][1]
        if case['expected'] == 'reject' and not errs:
            return ({}, '%s %r accepted' % (case['position'], case['text']))
        if case['expected'] == 'accept' and errs:
            return ({}, '%s %r rejected: %r' % (case['position'], case['text'], errs[:2]))
        return None
    finally:
        orc.close()


def run(chk):
    chk.build('oracle')
    chk.rule = RULE
    chk.assumptions = ['a formula is "rejected" iff an error is reported whose path is its own label (violations are confirmed alone in their own model)',
                       'which atoms are acceptable alone in a position (e.g. lower bounds are not invariants) is measured, not assumed']
    for p in sorted(glob.glob(os.path.join(common.VERIF, 'replays', 'C10', '*.json'))):
        rec = json.load(open(p))
        case = rec.get('case', rec)
        chk.stats.case('replay:' + os.path.basename(p), True, ['replay'])
        r = confirm(case)
        if r:
            chk.report(chk.stats, {'expected': 'replay', 'position': case['position'], 'shape': os.path.basename(p)}, r[1], case)
    chk.run_workers(worker)
    chk.explanation = 'the depth <= 2 formula space over one representative leaf per class is enumerated completely in both positions; deeper trees are sampled'
    return chk.finish(confirm=confirm)


def replay(chk, path):
    chk.build('oracle')
    rec = json.load(open(path))
    case = rec.get('case', rec)
    r = confirm(case)
    if r:
        print('  ' + str(r[1])[:1500])
        print('VIOLATION property=C10 replay=%s' % path)
        return 1
    print('replay: no violation')
    return 0
