"""Client of the oracle server (harness/cpp/oracle.cpp)."""
import json
import os
import subprocess

VERIF = os.path.dirname(os.path.dirname(os.path.dirname(os.path.abspath(__file__))))
BUILD = os.environ.get('UTAP_BUILD_ROOT', os.path.join(VERIF, '.build'))

ENV = dict(os.environ)
ENV['ASAN_OPTIONS'] = 'detect_leaks=0:abort_on_error=1:symbolize=1:allocator_may_return_null=1:detect_stack_use_after_return=0:handle_abort=1'
ENV['UBSAN_OPTIONS'] = 'print_stacktrace=1:halt_on_error=1'
ENV['ASAN_SYMBOLIZER_PATH'] = '/usr/bin/llvm-symbolizer-14'


def big_stack():
    """The sanitized -O1 build needs about 60 times the stack of the shipped RelWithDebInfo build per recursion level of the type
    checker (measured: 8 MiB are exhausted by a chain of 500 operators, the shipped build takes 30 000). A 2 GiB stack limit
    gives the instrumented build the same reach, so that stack exhaustion seen by a check is the library's, not ASan's."""
    import resource
    soft, hard = resource.getrlimit(resource.RLIMIT_STACK)
    want = 2 << 30
    if hard != resource.RLIM_INFINITY:
        want = min(want, hard)
    try:
        resource.setrlimit(resource.RLIMIT_STACK, (want, hard))
    except (ValueError, OSError):
        pass


def b(x):
    if isinstance(x, bytes):
        return x
    if isinstance(x, bool):
        return b'1' if x else b'0'
    return str(x).encode('utf-8', 'surrogateescape')


class Oracle:
    def __init__(self, workdir, cpu_limit=60):
        os.makedirs(workdir, exist_ok=True)
        self.workdir = workdir
        self.cpu_limit = cpu_limit
        self.proc = None
        self.requests = 0
        self.start()

    def start(self):
        exe = os.path.join(BUILD, 'asan', 'oracle')
        self.proc = subprocess.Popen([exe, self.workdir, str(self.cpu_limit)], stdin=subprocess.PIPE,
                                     stdout=subprocess.PIPE, stderr=subprocess.DEVNULL, env=ENV, preexec_fn=big_stack)

    def close(self):
        if self.proc:
            try:
                self.proc.stdin.close()
                self.proc.wait(timeout=5)
            except Exception:
                self.proc.kill()
            self.proc = None

    def request(self, steps):
        """steps: list of dicts (field -> str/bytes). Returns the decoded JSON answer:
        {'steps': [...]} or {'crash': {...}}"""
        fields = []
        for st in steps:
            fields.append(b'step')
            fields.append(b'')
            for k, v in st.items():
                if v is None:
                    continue
                fields.append(b(k))
                fields.append(b(v))
        out = [b'REQ %d\n' % len(fields)]
        for f in fields:
            out.append(b'%d\n' % len(f))
            out.append(f)
            out.append(b'\n')
        data = b''.join(out)
        for attempt in range(2):
            try:
                self.proc.stdin.write(data)
                self.proc.stdin.flush()
                hdr = self.proc.stdout.readline()
                if not hdr:
                    raise IOError('oracle server died')
                n = int(hdr)
                payload = self.proc.stdout.read(n)
                self.proc.stdout.read(1)
                self.requests += 1
                return json.loads(payload.decode('ascii'))
            except (IOError, ValueError, BrokenPipeError) as e:
                # the server itself (not a child) died: infrastructure problem; restart once
                self.close()
                self.start()
                if attempt == 1:
                    raise
        raise IOError('unreachable')

    def one(self, **step):
        r = self.request([step])
        if 'crash' in r:
            return r
        return r['steps'][0]


def crash_descriptor(crash):
    """Reduce a sanitizer report to a descriptor: error class + innermost two frames inside the repository
    (function@file, no line numbers)."""
    import re
    text = crash.get('stderr', '')
    kind = 'unknown'
    m = re.search(r'ERROR: AddressSanitizer: ([A-Za-z\-_]+)', text)
    if m:
        kind = 'asan:' + m.group(1)
        if m.group(1) == 'SEGV':
            m2 = re.search(r'The signal is caused by a (READ|WRITE) memory access', text)
            if re.search(r'address points to the zero page|Hint: address points to the zero page', text):
                kind += ':null'
    m = re.search(r"([A-Za-z_.+\-]+):\d+: [^\n]*Assertion '([^'\n]*)' failed", text)
    if m:       # libstdc++ hardening (-D_GLIBCXX_ASSERTIONS): an out-of-range index, front() of an empty container, a null smart pointer ...
        kind = 'libstdc++-assertion:%s:%s' % (m.group(1), m.group(2)[:60])
    m = re.search(r'runtime error: ([^\n]*)', text)
    if m and kind == 'unknown':
        msg = m.group(1)
        msg = re.sub(r'0x[0-9a-f]+', 'ADDR', msg)
        msg = re.sub(r'\d+', 'N', msg)
        kind = 'ubsan:' + msg[:80]
    if crash.get('timeout'):
        kind = 'timeout'
        text = text[text.find('ORACLE-TIMEOUT'):] if 'ORACLE-TIMEOUT' in text else ''
    if kind == 'unknown':
        m = re.search(r"terminate called after throwing an instance of '([^']+)'", text)
        if m:
            kind = 'terminate:' + m.group(1)
        elif 'signal' in crash:
            kind = 'signal:%s' % crash['signal']
        elif 'exit' in crash:
            kind = 'exit:%s' % crash['exit']
    frames = []
    for m in re.finditer(r'#\d+ 0x[0-9a-f]+ in (.+?) (/[^\s:]+)(?::\d+)?(?::\d+)?', text):
        fn, path = m.group(1), m.group(2)
        if '/harness/cpp/' in path:
            continue
        if '/src/' in path or '/include/utap/' in path or '/gen/' in path:
            fn = re.sub(r'\(.*', '', fn)
            frames.append(fn + '@' + os.path.basename(path))
        if len(frames) >= 2:
            break
    return {'kind': kind, 'frames': '|'.join(frames)}
