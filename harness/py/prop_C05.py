"""C05: XML and XTA renderings of the same model yield equivalent documents."""
import collections
import json
import os
import re

from hypothesis import strategies as st

import common
import gen_model as M
import oracle
from prop_C04 import classes_of, nontrivial, field_of, retuple

LEVEL = 'exploration'
RULE = ('abstract models of gen_model.py restricted to the common subset of both formats (named locations; branchpoints named '
        '_<id>; full "L -> M { select; guard; sync; assign; probability }" transitions and the chained "-> M { }" form on edges '
        'without probability; "{inv ; rate}" states; commit/urgent lists; -u-> for uncontrollable edges), rendered once as XML '
        'and once as XTA and parsed through the Document* overloads (DocumentBuilder + TypeChecker + FeatureChecker). A third of '
        'the models carry one injected fault (unknown identifier / type error / side effect in a guard / wrong argument count) at '
        'the same abstract place in both renderings so that diagnostics are not vacuous. Compared: projection of the document '
        '(declarations, templates, locations, flags, edges, labels, processes, instances), multisets of (message, context) of '
        'errors and of warnings, supported-methods verdict. Not compared: positions/paths and edge action names (XML-only '
        'attribute). Non-trivial as C04; distinct = distinct XTA texts.')

FAULTS = ['none', 'none', 'unknown-id-guard', 'type-error-update', 'side-effect-guard', 'unknown-id-decl', 'bad-arg-count', 'unknown-id-invariant', 'location-named-as-variable',
          'location-named-as-variable']


def inject(m, fault, pick):
    """apply one fault to the abstract model (in place). returns the fault actually applied"""
    G = M.ID
    tmpls = [t for t in m.templates if t.edges]
    if fault == 'unknown-id-guard' and tmpls:
        t = tmpls[pick % len(tmpls)]
        t.edges[pick % len(t.edges)].guard = ('bin', '>', G('nosuchname'), ('int', 1))
        return fault
    if fault == 'side-effect-guard' and tmpls:
        t = tmpls[pick % len(tmpls)]
        ints = t.env.of_kind('int')
        if ints:
            t.edges[pick % len(t.edges)].guard = ('bin', '>', ('post', '++', G(ints[0])), ('int', 1))
            return fault
    if fault == 'type-error-update' and tmpls:
        t = tmpls[pick % len(tmpls)]
        clocks = t.env.of_kind('clock')
        ints = t.env.of_kind('int')
        if clocks and ints:
            t.edges[pick % len(t.edges)].update = [('asg', '=', G(ints[0]), G(clocks[0]))]
            return fault
    if fault == 'unknown-id-decl':
        m.gdecls.append(M.Decl('int zzq = nosuchname + 1;', vars=[('zzq', M.TS_INT, None)]))
        return fault
    if fault == 'unknown-id-invariant' and m.templates:
        t = m.templates[pick % len(m.templates)]
        t.locs[pick % len(t.locs)].inv = ('bin', '<=', G('nosuchclock'), ('int', 3))
        return fault
    if fault == 'location-named-as-variable' and m.templates:
        # a template-local variable with the name of a (preferably urgent / committed) location: the location is a duplicate definition
        t = m.templates[pick % len(m.templates)]
        named = [l for l in t.locs if l.name]
        flagged = [l for l in named if l.urgent or l.committed] or named
        if flagged:
            l = flagged[pick % len(flagged)]
            t.decls.append(M.Decl('int %s;' % l.name, vars=[(l.name, M.TS_INT, None)]))
            return fault
    if fault == 'bad-arg-count' and m.insts:
        i = m.insts[pick % len(m.insts)]
        i[3] = list(i[3]) + [('int', 1)]
        return fault
    return 'none'


def xta_chained(m, chain):
    """XTA text; with chain=True consecutive edges with the same source (and no probability) use the '-> M { }' form"""
    if not chain:
        return m.xta()
    text = m.xta()
    # rewrite inside each 'trans ...;' list: "A -> B {..},\n  A -> C {..}" => "A -> B {..},\n  -> C {..}" when the second has no probability
    out = []
    for line in text.split('\n'):
        out.append(line)
    text = '\n'.join(out)

    def repl(mo):
        items = mo.group(1).split(',\n  ')
        res = [items[0]]
        prev_src = items[0].split(' ')[0]
        for it in items[1:]:
            src = it.split(' ')[0]
            if src == prev_src and 'probability' not in it:
                res.append(it[len(src) + 1:])
            else:
                res.append(it)
            prev_src = src
        return 'trans ' + ',\n  '.join(res) + ';'
    return re.sub(r'trans (.*?);\n\}', lambda mo: repl(mo) + '\n}', text, flags=re.S)


def diag_multiset(lst):
    return sorted((d['msg'], d['ctx']) for d in lst)


def compare(orc, xml, xta, newxta=1):
    """-> None or (descriptor, what)"""
    r = orc.request([dict(entry='xml-buffer', builder='document', newxta=newxta, input=xml, dump='doc,diag,methods,inv'),
                     dict(entry='xta-buffer', builder='document', newxta=newxta, input=xta, dump='doc,diag,methods,inv')])
    if 'crash' in r:
        d = oracle.crash_descriptor(r['crash'])
        return ({'field': 'crash:' + d['kind'] + ':' + d['frames']}, r['crash'].get('stderr', '')[:1500])
    a, b = r['steps']
    if (a.get('exc') or {}).get('class') != (b.get('exc') or {}).get('class'):
        return ({'field': 'exception'}, 'xml: %s / xta: %s' % (a.get('exc'), b.get('exc')))
    ea, eb = diag_multiset(a['errors']), diag_multiset(b['errors'])
    if ea != eb:
        only_a = [x for x in ea if x not in eb]
        only_b = [x for x in eb if x not in ea]
        msg = (only_a + only_b + [('', '')])[0][0].split(':')[0]
        return ({'field': 'errors', 'detail': msg}, 'errors differ: xml-only %r, xta-only %r' % (only_a[:3], only_b[:3]))
    wa, wb = diag_multiset(a['warnings']), diag_multiset(b['warnings'])
    if wa != wb:
        only_a = [x for x in wa if x not in wb]
        only_b = [x for x in wb if x not in wa]
        msg = (only_a + only_b + [('', '')])[0][0].split(':')[0]
        return ({'field': 'warnings', 'detail': msg}, 'warnings differ: xml-only %r, xta-only %r' % (only_a[:3], only_b[:3]))
    if a['methods'] != b['methods']:
        return ({'field': 'methods'}, 'supported methods differ: xml %r xta %r' % (a['methods'], b['methods']))
    pa, pb = M.project(a['doc']), M.project(b['doc'])
    d = M.diff(retuple(json.loads(json.dumps(pa))), retuple(json.loads(json.dumps(pb))))
    if d:
        return ({'field': field_of(d[0])}, '%s: xml gives %r, xta gives %r' % (d[0], d[1], d[2]))
    return None


def worker(chk, wi, nw):
    stats = common.Stats()
    orc = oracle.Oracle(os.path.join(chk.workdir, 'w%d' % wi), cpu_limit=30)

    def test(args):
        m, fault, pick, chain = args
        applied = inject(m, fault, pick)
        xml = m.xml()
        xta = xta_chained(m, chain)
        stats.case(xta, nontrivial=nontrivial(m), classes=classes_of(m) + ['fault:' + applied] + (['chained-transitions'] if chain and xta != m.xta() else []),
                   sample={'xta': xta[:900], 'fault': applied})
        v = compare(orc, xml, xta)
        if v is None:
            return None
        d, what = v
        case = {'kind': 'pair', 'xml': xml, 'xta': xta}
        if chk.is_known(d):
            chk.report(stats, d, what, case)
            return None
        return (d, what, case)

    n = 320 if chk.tier == 'quick' else 6500
    strat = st.tuples(M.models(for_xta=True, need_clean=True), st.sampled_from(FAULTS), st.integers(0, 50), st.booleans())
    common.run_hypothesis(chk, stats, strat, test, n, chk.seed * 1000 + wi)
    orc.close()
    return stats


def confirm(case):
    orc = oracle.Oracle(os.path.join(common.WORK, 'C05', 'confirm'), cpu_limit=30)
    try:
        return compare(orc, case['xml'], case['xta'])
    finally:
        orc.close()


def run(chk):
    chk.build('oracle')
    chk.rule = RULE
    chk.assumptions = ['edge_t::actname is not compared: the XML reader passes "SKIP", the XTA grammar the default ""; it is an XML-only attribute, neither a label nor a flag',
                       'old (3.x) syntax is not generated by this check']
    import glob
    for p in sorted(glob.glob(os.path.join(common.VERIF, 'replays', 'C05', '*.json'))):
        rec = json.load(open(p))
        r = confirm(rec)
        chk.stats.case('replay:' + p, True, ['replay'])
        if r:
            chk.report(chk.stats, r[0], r[1], rec)
    chk.run_workers(worker)
    return chk.finish(confirm=confirm)


def replay(chk, path):
    chk.build('oracle')
    rec = json.load(open(path))
    case = rec.get('case', rec)
    r = confirm(case)
    if r:
        print('  ' + str(r[1])[:1500])
        print('VIOLATION property=C05 replay=%s' % path)
        return 1
    print('replay: no violation')
    return 0
