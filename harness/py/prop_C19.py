"""C19: expression cloning, substitution and equality obey their algebraic laws."""
import glob
import json
import os

from hypothesis import strategies as st

import common
import gen_expr as G
import gen_model as M
import gen_query as Q
import oracle
from prop_C04 import NOISE

LEVEL = 'exploration'
RULE = ('expressions come from three sources: (1) every expression of every document built from generated models (gen_model.py: '
        'invariants, rates, guards, synchronisations, updates, probabilities, initialisers incl. LIST nodes, function bodies incl. '
        'FUN_CALL, instantiation arguments), (2) every query form of gen_query.py (A[] E<> --> sup inf bounds Pr E[] simulate '
        'control minE/maxE strategies MITL ...) parsed by TigaPropertyBuilder on the three model flavours, (3) untyped random '
        'trees over the full operator set (gen_expr.py) parsed as bare expressions. For each expression the oracle server '
        '(harness/cpp/laws.h, public API only) checks: clone_deeper is equal() both ways, dumps identically, shares no node with '
        'the original (operator== over all node pairs up to 120 nodes), set_type on every node and child replacement on the clone '
        'leave the original unchanged and vice versa; subst(s, s) is the identity, subst(s, 42) equals the textual replacement of '
        'exactly the IDENTIFIER nodes of s on the canonical dump, leaves the operand unchanged and is not equal() to it, subst of '
        'a symbol that does not occur is the identity; equal is reflexive, symmetric and transitive on (e, clone, clone of '
        'clone) and implies equal text; every single-node perturbation (constant +1 / next double, other symbol, DOT index, '
        'sync direction, kind swapped within the same arity, two children swapped, last child of LIST / FUN_CALL dropped; up to '
        '40 per expression) is distinguished by equal() in both directions; get(i) is called for every i < get_size() of every '
        'node under ASan; type_t::subst (the substitution P.x relies on) replaces exactly the occurrences of a template parameter in the types of the template\'s variables, is pure and is the identity for q:=q (generated models and a fixed model with parameters in bounds, array sizes, struct fields and typedefs). evaluations counts expressions; non-trivial / distinct is counted per input (model text, query text, '
        'list of tree texts) that yields at least one expression with >= 2 nodes; the evidence also lists the node kinds seen.')


PARAM_MODEL = ('<nta><declaration>const int K = 2; int gv;</declaration><template><name>T</name><parameter>const int N, const int M, int &amp;r</parameter>'
               '<declaration>int[0,N] a; int[0,N+1] b; int[-N,2*N] c; int[0,(N&gt;M?N:M)] d; int arr[N]; int arr1[N+1]; int m[N][M]; bool g[N*2]; '
               'struct { bool g[N]; int[0,M-1] h; } s; typedef int[0,N-1] idx_t; idx_t ix; int byidx[idx_t]; const int L = N + M; int[0,L] e; clock x[N];</declaration>'
               '<location id="id0"><name>L0</name></location><init ref="id0"/></template>'
               '<system>P = T(3, 5, gv); Q = T(K, K + 1, gv); system P, Q;</system></nta>')


def laws_of(resp):
    """-> (laws dict list, crash) for a request answer"""
    if 'crash' in resp:
        return None
    return [s.get('laws') for s in resp['steps']]


def digest(chk, stats, laws, source, sample, case):
    if laws is None:
        return None
    stats.evaluations += laws['expressions']
    stats.extra['expressions:' + source] += laws['expressions']
    stats.extra['nodes'] += laws['nodes']
    stats.extra['perturbations'] += laws['perturbations']
    stats.extra['substitutions'] += laws['substitutions']
    for k, v in laws['kinds'].items():
        stats.classes['kind:' + k] += v
    for f in laws['failures']:
        d = {'law': f['law'], 'root': f['expr'].split(' ')[0].strip('()')}
        what = '%s at %s: %s [%s]' % (f['law'], f['where'], f['detail'][:400], f['expr'][:300])
        if chk.is_known(d):
            chk.report(stats, d, what, case)
        else:
            return (d, what, case)
    return None


def worker(chk, wi, nw):
    stats = common.Stats()
    orc = oracle.Oracle(os.path.join(chk.workdir, 'w%d' % wi), cpu_limit=120)
    seen = [0]

    def model_test(args):
        m, noise = args
        xml = m.xml(noise)
        step = dict(entry='xml-buffer', builder='document', newxta=1, input=xml, dump='none', actions='laws')
        r = orc.request([step])
        if 'crash' in r:
            dsc = oracle.crash_descriptor(r['crash'])
            return ({'law': 'crash:' + dsc['kind'], 'root': dsc['frames']}, r['crash'].get('stderr', '')[:1500], {'kind': 'request', 'steps': [step]})
        laws = r['steps'][0]['laws']
        stats.case(xml, nontrivial=laws['nodes'] > laws['expressions'], classes=['source:model'], sample={'source': 'model', 'expressions': laws['expressions'], 'nodes': laws['nodes'], 'xml_prefix': xml[:300]})
        stats.evaluations -= 1
        return digest(chk, stats, laws, 'model', None, {'kind': 'request', 'steps': [step]})

    def query_test(flavour, parts):
        txt = Q.qtext(parts)
        step = dict(entry='xml-buffer', builder='document', newxta=1, input=Q.MODELS[flavour], dump='none', actions='laws', queries=txt, law_skip_doc=1)
        r = orc.request([step])
        if 'crash' in r:
            dsc = oracle.crash_descriptor(r['crash'])
            return ({'law': 'crash:' + dsc['kind'], 'root': dsc['frames']}, txt + '\n' + r['crash'].get('stderr', '')[:1500], {'kind': 'request', 'steps': [step]})
        laws = r['steps'][0]['laws']
        stats.case('q:' + txt, nontrivial=laws['query_expressions'] > 0, classes=['source:query', 'flavour:' + flavour], sample={'source': 'query', 'query': txt, 'nodes': laws['nodes']})
        stats.evaluations -= 1
        return digest(chk, stats, laws, 'query', None, {'kind': 'request', 'steps': [step]})

    def tree_test(trees):
        txt = '\n'.join(G.render(t, 'min') for t in trees)
        step = dict(entry='xml-buffer', builder='document', newxta=1, input=G.ENV_XML, dump='none', actions='laws', queries=txt, qmode='exprp', law_skip_doc=1)
        r = orc.request([step])
        if 'crash' in r:
            dsc = oracle.crash_descriptor(r['crash'])
            return ({'law': 'crash:' + dsc['kind'], 'root': dsc['frames']}, txt[:300] + '\n' + r['crash'].get('stderr', '')[:1500], {'kind': 'request', 'steps': [step]})
        laws = r['steps'][0]['laws']
        stats.case('t:' + txt, nontrivial=laws['nodes'] > laws['expressions'], classes=['source:untyped-tree'], sample={'source': 'tree', 'first': txt.split('\n')[0], 'nodes': laws['nodes']})
        stats.evaluations -= 1
        return digest(chk, stats, laws, 'tree', None, {'kind': 'request', 'steps': [step]})

    quick = chk.tier == 'quick'
    if wi == 0:
        # template variables whose types mention the template parameters in every position (bounds, array sizes, struct fields)
        step = dict(entry='xml-buffer', builder='document', newxta=1, input=PARAM_MODEL, dump='none', actions='laws')
        r = orc.request([step])
        if 'crash' in r:
            stats.violations.append({'descriptor': {'law': 'crash:' + oracle.crash_descriptor(r['crash'])['kind'], 'root': 'param-model'}, 'what': r['crash'].get('stderr', '')[:1500],
                                     'case': {'kind': 'request', 'steps': [step]}})
        else:
            laws = r['steps'][0]['laws']
            stats.extra['type_substitutions'] += laws.get('type_substitutions', 0)
            stats.case('param-model', nontrivial=True, classes=['source:parametric-types'], sample={'source': 'parametric types', 'type_substitutions': laws.get('type_substitutions')})
            v = digest(chk, stats, laws, 'model', None, {'kind': 'request', 'steps': [step]})
            if v:
                stats.violations.append({'descriptor': v[0], 'what': v[1], 'case': v[2]})
    if wi == 1 % nw:
        # several documents alive in one process: equal() across them (string constants live in per-document tables)
        def strdoc(words):
            decl = ' '.join('const string s%d = "%s";' % (k, w) for k, w in enumerate(words)) + ' const int k0 = %d; int v0;' % len(words[0])
            return ('<nta><declaration>%s</declaration><template><name>P</name><location id="id0"><name>L0</name></location><init ref="id0"/>'
                    '<transition><source ref="id0"/><target ref="id0"/><label kind="guard">v0 == k0 + %d</label></transition></template><system>system P;</system></nta>') % (decl, len(words))
        docs = [strdoc(['north', 'red', 'green']), strdoc(['south', 'blue', 'black']), strdoc(['north', 'green', 'red']), strdoc(['east']), strdoc(['south', 'blue', 'black'])]
        steps = [dict(entry='xml-buffer', builder='document', newxta=1, input=x, dump='none', actions='laws', law_cross=1) for x in docs]
        r = orc.request(steps)
        if 'crash' in r:
            stats.violations.append({'descriptor': {'law': 'crash:' + oracle.crash_descriptor(r['crash'])['kind'], 'root': 'cross-document'}, 'what': r['crash'].get('stderr', '')[:1500],
                                     'case': {'kind': 'request', 'steps': steps}})
        else:
            for s in r['steps']:
                laws = s['laws']
                stats.extra['cross_document_pairs'] += laws.get('cross_document_pairs', 0)
                stats.case('cross-document:' + str(laws.get('cross_document_pairs')), nontrivial=laws.get('cross_document_pairs', 0) > 0, classes=['source:cross-document'],
                           sample={'source': 'several documents in one process', 'pairs': laws.get('cross_document_pairs')})
                v = digest(chk, stats, laws, 'model', None, {'kind': 'request', 'steps': steps})
                if v:
                    stats.violations.append({'descriptor': v[0], 'what': v[1], 'case': v[2]})
                    break
    common.run_hypothesis(chk, stats, st.tuples(M.models(), NOISE), model_test, 60 if quick else 1500, chk.seed * 1000 + wi)
    forms = Q.query_forms()
    for k, (name, (flavour, strat)) in enumerate(sorted(forms.items())):
        common.run_hypothesis(chk, stats, strat, lambda parts, flavour=flavour: query_test(flavour, parts), 6 if quick else 120,
                              chk.seed * 1000 + wi * 50 + k)
    common.run_hypothesis(chk, stats, st.lists(G.strategy(max_leaves=10), min_size=5, max_size=15), tree_test, 40 if quick else 800, chk.seed * 1000 + 700 + wi)
    orc.close()
    return stats


def confirm(case):
    orc = oracle.Oracle(os.path.join(common.WORK, 'C19', 'confirm'), cpu_limit=120)
    try:
        r = orc.request(case['steps'])
        if 'crash' in r:
            return ({}, 'crash: ' + oracle.crash_descriptor(r['crash'])['kind'])
        for s in r['steps']:
            fl = (s.get('laws') or {}).get('failures') or []
            if fl:
                return ({}, '%s: %s' % (fl[0]['law'], fl[0]['detail']))
        return None
    finally:
        orc.close()


def run(chk):
    chk.build('oracle')
    chk.rule = RULE
    chk.assumptions = ['laws are evaluated through the public expression_t API inside the sanitized oracle server; node identity is operator==',
                       'an under-reported child count is not observable through the public API; over-reporting shows as an ASan/UBSan report on get(i)',
                       'substitution is compared on the canonical dump (types attached to nodes are not part of it)']
    for p in sorted(glob.glob(os.path.join(common.VERIF, 'replays', 'C19', '*.json'))):
        rec = json.load(open(p))
        case = rec.get('case', rec)
        chk.stats.case('replay:' + os.path.basename(p), True, ['replay'])
        r = confirm(case)
        if r:
            chk.report(chk.stats, {'law': 'replay', 'root': os.path.basename(p)}, r[1], case)
    chk.run_workers(worker)
    return chk.finish(confirm=confirm)


def replay(chk, path):
    chk.build('oracle')
    rec = json.load(open(path))
    case = rec.get('case', rec)
    r = confirm(case)
    if r:
        print('  ' + str(r[1])[:1500])
        print('VIOLATION property=C19 replay=%s' % path)
        return 1
    print('replay: no violation')
    return 0
