"""C09: accept/reject verdicts are invariant under meaning-preserving rewrites."""
import glob
import json
import os
import random
import re
import xml.etree.ElementTree as ET

from hypothesis import strategies as st

import common
import faults as F
import gen_expr as G
import gen_model as M
import oracle
import tokenizer as T
from prop_C05 import inject, FAULTS

LEVEL = 'exploration'
RULE = ('models: generated abstract models (gen_model.py) - accepted ones, ones carrying one abstract fault (unknown identifier in a '
        'guard / invariant / declaration, type error in an update, side effect in a guard, wrong argument count) and ones carrying a '
        'token-level fault (faults.py) - and the 18 models of /repo/test/models. Rewrites: R1 redundant parentheses around every '
        'operand of every label and instantiation argument (applied on the abstract tree, so grouping never changes); R2 white '
        'space, line breaks, /* */ and // comments (including the text EXPECT:x) and backslash continuations between tokens of '
        'every text block; R3 consistent renaming of every user-chosen identifier (variables, types, functions, fields, '
        'parameters, templates, locations, processes - in every text block, <name> element and query) to fresh names, and a '
        'sub-family that renames variables and locations to the soft keywords A U W R E M sup inf bounds simulation; R4 and/or/not/:= '
        'replaced by &&/||/!/=. For raw repository models the token-level rewrites R2, R3, R4 are applied. Oracle: the multiset of '
        '(message with the renaming applied token-wise, context) of errors and of warnings, the exception class if any, the '
        'supported-methods verdict and the canonical document dump with the renaming applied are equal for M and r(M) (repository '
        'models: dump compared through its shape counts, names there are arbitrary). Non-trivial: the rewrite changed >= 3 sites '
        'and the model has an edge label or a function body; distinct = distinct (model text, rewrite).')

BUILTIN_IDS = set(M._BUILTIN) | {'int8_t', 'uint8_t', 'int16_t', 'uint16_t', 'int32_t', 'true', 'false', 'default', 'deadlock'}
SOFT = ['A', 'U', 'W', 'R', 'E', 'M', 'sup', 'inf', 'bounds', 'simulation']
TEXT_TAGS = ('declaration', 'parameter', 'instantiation', 'system', 'formula')


def is_user(tok):
    # one-letter names (the struct fields f, g of the generator) coincide with the vocabulary of the canonical dump (@g/..): left alone
    return T.is_user_identifier(tok) and tok[1] not in BUILTIN_IDS and len(tok[1]) > 1


def fresh_name(k):
    return 'zq%s%d_' % ('abcdefghij'[k % 10], k)


def rename_text(text, mapping):
    out = []
    last = 0
    for kind, tx, a, b in T.tokens(text):
        if kind == 'id' and tx in mapping:
            out.append(text[last:a])
            out.append(mapping[tx])
            last = b
    out.append(text[last:])
    return ''.join(out)


def rename_plain(text, mapping):
    """token-wise renaming of identifiers in arbitrary text (messages, dumps)"""
    def one(mo):
        w = mo.group(0)
        if w in mapping:
            return mapping[w]
        k = w.rfind('#')      # the dump numbers symbols of the same name 'T1#2': the suffix is not part of the name
        if k > 0 and w[k + 1:].isdigit() and w[:k] in mapping:
            return mapping[w[:k]] + w[k:]
        return w
    return re.sub(r'(?<![A-Za-z_0-9$#])(?<![0-9a-fA-F]\.)[A-Za-z_][A-Za-z_0-9$#]*', one, text)


class XmlModel:
    def __init__(self, xml):
        self.root = ET.fromstring(xml.encode('utf-8'))

    def text_nodes(self):
        """(element, kind) for every element whose text goes to the grammar or names something"""
        out = []
        for el in self.root.iter():
            if el.tag in TEXT_TAGS and (el.text or '').strip():
                out.append((el, 'block'))
            elif el.tag == 'label' and el.get('kind') in F.BLOCK_LABELS and (el.text or '').strip():
                out.append((el, 'block'))
            elif el.tag == 'name' and (el.text or '').strip():
                out.append((el, 'name'))
        return out

    def serialize(self):
        return '<?xml version="1.0" encoding="utf-8"?>\n' + ET.tostring(self.root, encoding='unicode').replace('\r', '&#13;')


def user_identifiers(xm):
    """identifiers that carry no meaning of their own: not keywords, and not words the sources of the library compare names with (a function
    called __RESET__ is an annotation by design: renaming it is not meaning preserving)"""
    reserved = set(M.NAMES_HARVESTED)
    ids = []
    for el, kind in xm.text_nodes():
        if kind == 'name':
            t = el.text.strip()
            if re.fullmatch(r'[A-Za-z_][A-Za-z_0-9$#]*', t) and t not in T.KEYWORDS and t not in ids and t not in reserved:
                ids.append(t)
        else:
            for tok in T.tokens(el.text):
                if is_user(tok) and tok[1] not in ids and tok[1] not in reserved:
                    ids.append(tok[1])
    return ids


def rewrite_tokens(xml, which, rnd, soft_candidates=None):
    """token-level rewrites R2 / R3 / R3soft / R4 on XML text -> (new xml, mapping, number of changed sites)"""
    xm = XmlModel(xml)
    mapping = {}
    sites = 0
    if which in ('R3', 'R3soft'):
        ids = user_identifiers(xm)
        if which == 'R3':
            for k, n in enumerate(ids):
                mapping[n] = fresh_name(k)
        else:
            cands = [n for n in ids if soft_candidates is None or soft_candidates(n)]
            rnd.shuffle(cands)
            present = {tok[1] for el_, kind_ in xm.text_nodes() if kind_ == 'block' for tok in T.tokens(el_.text) if tok[0] == 'id'}
            soft = [s_ for s_ in SOFT if s_ not in present]     # the model may use some of them already
            rnd.shuffle(soft)
            for n, s_ in zip(cands, soft):
                mapping[n] = s_
    # the name of an LSC instance line is taken as it stands (readText(instanceLine = true) does not trim it): no white space is added there
    instance_names = {n for inst in xm.root.iter('instance') for n in inst.findall('name')}
    for el, kind in xm.text_nodes():
        t = el.text
        if which in ('R3', 'R3soft'):
            if kind == 'name':
                nt = mapping.get(t.strip(), t.strip())
                sites += nt != t.strip()
                el.text = nt
            else:
                nt = rename_text(t, mapping)
                sites += sum(1 for tok in T.tokens(t) if tok[0] == 'id' and tok[1] in mapping)
                el.text = nt
        elif kind == 'name' and which == 'R2' and el not in instance_names:
            # a <name> is an identifier with optional white space around it (symbol() in the XML reader skips isspace())
            pat = rnd.choice([None, None, ' %s', '%s ', '\n%s', '%s\n', '\n\t %s \n', '%s\r\n', '\r\n  %s', '\t%s\t'])
            if pat is not None:
                el.text = pat % t.strip()
                sites += 1
        elif kind == 'block' and which == 'R2':
            if el.tag == 'formula':
                continue      # a line break separates queries by definition
            cnt = [0]

            def choose(i, n, cnt=cnt):
                c = rnd.choice([None] + list(range(n)))
                if c is not None:
                    cnt[0] += 1
                return c
            nt = F.add_noise(t, choose, crlf=rnd.random() < 0.2, lead=rnd.choice(['', '\n', ' ', '\t\n']))
            open_comment = any(k_ == 'bcomment' and not tx_.endswith('*/') for k_, tx_, _, _ in T.tokens(t, keep_space=True))
            if rnd.random() < 0.3 and not open_comment:   # text after an unterminated comment would be part of it (or close it)
                nt += rnd.choice([' // EXPECT:x', '\n/* EXPECT: sat */', ' /* trailing */'])
                cnt[0] += 1
            sites += cnt[0]
            el.text = nt
        elif kind == 'block' and which == 'R4':
            out = []
            last = 0
            for tk, tx, a, b in T.tokens(t):
                rep = {'and': '&&', 'or': '||', 'not': '!', ':=': '='}.get(tx) if tk in ('id', 'op') else None
                if rep:
                    out.append(t[last:a])
                    out.append(rep if rep != '!' else '! ')
                    last = b
                    sites += 1
            out.append(t[last:])
            el.text = ''.join(out)
    return xm.serialize(), mapping, sites


def shape(doc):
    """name-free structural summary of a doc dump (for repository models)"""
    g = doc['globals']
    return {'globals': (len(g['variables']), len(g['functions'])),
            'templates': [(len(t['locations']), len(t['edges']), len(t['branchpoints']), len(t['decls']['variables']), len(t['decls']['functions']), len(t['parameters']))
                          for t in doc['templates']],
            'processes': len(doc['processes']), 'instances': len(doc['instances'])}


def result_of(orc, xml):
    r = orc.request([dict(entry='xml-buffer', builder='document', newxta=1, input=xml, dump='doc,diag,methods')])
    if 'crash' in r:
        return None
    return r['steps'][0]


def compare(a, b, mapping, exact_dump=True):
    """a: original result, b: rewritten result -> None or (field, what)"""
    ea, eb = (a.get('exc') or {}).get('class'), (b.get('exc') or {}).get('class')
    if ea != eb:
        return ('exception', 'original: %r, rewritten: %r' % (a.get('exc'), b.get('exc')))
    for sev in ('errors', 'warnings'):
        ma = sorted((rename_plain(d['msg'], mapping), d['ctx']) for d in a[sev])
        mb = sorted((d['msg'], d['ctx']) for d in b[sev])
        if ma != mb:
            import collections
            ca, cb = collections.Counter(ma), collections.Counter(mb)
            oa = sorted((ca - cb).elements())
            ob = sorted((cb - ca).elements())
            return (sev + ':' + ((oa + ob)[0][0].split(':')[0].split(' ')[0] if (oa + ob) else 'count'), '%s differ: only original %r, only rewritten %r' % (sev, oa[:3], ob[:3]))
    if a.get('methods') != b.get('methods'):
        return ('methods', 'original %r, rewritten %r' % (a['methods'], b['methods']))
    if exact_dump:
        def rename_values(x):      # the keys of the dump are its own vocabulary ('invariant', 'update', ...): a model may use the same words as names
            if isinstance(x, dict):
                return {k: rename_values(v) for k, v in x.items()}
            if isinstance(x, list):
                return [rename_values(v) for v in x]
            return rename_plain(x, mapping) if isinstance(x, str) else x
        da, db = rename_values(a['doc']), b['doc']
        if json.dumps(da, sort_keys=True) != json.dumps(db, sort_keys=True):
            d = M.diff(da, db)
            if d:
                return ('doc:' + re.sub(r'\[\d+\]', '', d[0]), '%s: original (renamed) %r, rewritten %r' % (d[0], str(d[1])[:300], str(d[2])[:300]))
    else:
        if shape(a['doc']) != shape(b['doc']):
            return ('doc-shape', 'original %r, rewritten %r' % (shape(a['doc']), shape(b['doc'])))
    return None


def soft_ok_generated(name):
    return bool(re.fullmatch(r'(v|b|x|K|r|a|d)\d+', name))   # variables only: the XML reader refuses keywords as location / template names by design


REWRITES = ['R1', 'R2', 'R2', 'R3', 'R3', 'R3soft', 'R4']


def worker(chk, wi, nw):
    stats = common.Stats()
    orc = oracle.Oracle(os.path.join(chk.workdir, 'w%d' % wi), cpu_limit=60)

    def judge(xml, xml2, mapping, rewrite, sites, cls, has_body, exact=True):
        a = result_of(orc, xml)
        b = result_of(orc, xml2)
        if a is None or b is None:
            stats.extra['crashes_seen_(C01)'] += 1
            return None
        verdict = 'exception' if a.get('exc') else ('rejected' if a['errors'] else 'accepted')
        stats.case(xml + '|' + rewrite + '|' + xml2, nontrivial=sites >= 3 and has_body, classes=cls + ['rewrite:' + rewrite, 'original:' + verdict],
                   sample={'rewrite': rewrite, 'sites': sites, 'original_verdict': verdict, 'rewritten_prefix': xml2[:500]})
        v = compare(a, b, mapping, exact_dump=exact)
        if v is None:
            return None
        d = {'rewrite': rewrite, 'field': v[0]}
        case = {'kind': 'pair', 'xml': xml, 'xml2': xml2, 'mapping': mapping, 'exact': exact}
        what = 'rewrite %s (%d sites): %s' % (rewrite, sites, v[1])
        if chk.is_known(d):
            chk.report(stats, d, what, case)
            return None
        return (d, what, case)

    def test(args):
        m, fault, pick, rewrite, seed = args
        rnd = random.Random(seed)
        applied = inject(m, fault, pick)
        xml = m.xml()
        cls = ['fault:' + applied, 'source:generated']
        tokfault = rnd.random() < 0.3 and applied == 'none'
        if tokfault:
            doc = F.Doc(xml)
            if doc.blocks:
                b = rnd.choice(doc.blocks)
                text = doc.text_of(b)
                n = len(T.tokens(text))
                fk = rnd.choice(F.FAULT_KINDS + ['unterminated-comment', 'unterminated-comment'])
                res = F.apply_fault(text, fk, rnd.randrange(max(1, n)), variant=rnd.randrange(100)) if n else None
                if res:
                    # the rewrites operate on tokens: keep the fault inside the abstract model's text by patching the XML directly
                    xml = doc.serialize({b['path']: res[0]})
                    cls = ['fault:token:' + fk, 'source:generated']
                else:
                    tokfault = False
        if applied == 'none' and not tokfault and rnd.random() < 0.2:
            # a template or location named like a keyword (the XML reader refuses those that are keywords of the old syntax or of the query language)
            names = list(re.finditer(r'(<name[^>]*>)([^<]*)(</name>)', xml))
            if names:
                mo = rnd.choice(names)
                kw = rnd.choice(['sup', 'inf', 'bounds', 'simulation', 'deadlock', 'control', 'strategy', 'minE', 'maxE', 'simulate', 'Pr', 'imply', 'process', 'urgent', 'true', 'guard', 'clock'])
                xml = xml[:mo.start(2)] + kw + xml[mo.end(2):]
                cls = ['fault:keyword-as-name', 'source:generated']
                tokfault = True      # R1 works on the abstract model: use a token-level rewrite instead
        has_body = any(t.edges for t in m.templates)
        if rewrite == 'R1':
            if tokfault:
                rewrite = 'R2'
            else:
                saved = M.R
                M.R = lambda t: G.render(t, 'full')
                try:
                    xml2 = m.xml()
                finally:
                    M.R = saved
                sites = sum(1 for t in m.templates for e in t.edges for k in ('guard', 'update', 'prob') if getattr(e, k) is not None) + sum(1 for t in m.templates for l in t.locs if l.inv is not None)
                return judge(xml, xml2, {}, 'R1', sites * 2, cls, has_body)
        xml2, mapping, sites = rewrite_tokens(xml, rewrite, rnd, soft_ok_generated)
        return judge(xml, xml2, mapping, rewrite, sites, cls, has_body)

    # repository models
    files = sorted(glob.glob(os.path.join(common.REPO, 'test', 'models', '*.xml')))
    k = 0
    for fn in files:
        xml = open(fn, encoding='utf-8').read()
        for rw in ('R2', 'R3', 'R4', 'R2'):
            if rw == 'R3' and 'lsc' in os.path.basename(fn):
                continue   # LSC instance lines / messages carry names in elements this renamer does not know
            for rep in range(2 if chk.tier == 'quick' else 8):
                k += 1
                if k % nw != wi:
                    continue
                rnd = random.Random(chk.seed * 7919 + k)
                try:
                    xml2, mapping, sites = rewrite_tokens(xml, rw, rnd)
                except ET.ParseError:
                    continue
                v = judge(xml, xml2, mapping, rw, sites, ['source:repository', 'model:' + os.path.basename(fn)], True, exact=False)
                if v:
                    stats.violations.append({'descriptor': v[0], 'what': os.path.basename(fn) + ': ' + v[1], 'case': v[2]})
    n = 120 if chk.tier == 'quick' else 3000
    strat = st.tuples(M.models(need_clean=True), st.sampled_from(FAULTS), st.integers(0, 50), st.sampled_from(REWRITES), st.integers(0, 10 ** 6))
    common.run_hypothesis(chk, stats, strat, test, n, chk.seed * 1000 + wi)
    orc.close()
    return stats


def confirm(case):
    orc = oracle.Oracle(os.path.join(common.WORK, 'C09', 'confirm'), cpu_limit=60)
    try:
        a, b = result_of(orc, case['xml']), result_of(orc, case['xml2'])
        if a is None or b is None:
            return None
        v = compare(a, b, case['mapping'], exact_dump=case.get('exact', True))
        return ({}, v[1]) if v else None
    finally:
        orc.close()


def run(chk):
    chk.build('oracle')
    chk.rule = RULE
    chk.assumptions = ['renaming targets avoid every keyword of keywords.cpp, the built-in names and the type names; soft keywords are used only for variables and locations of generated models (where NonTypeId re-admits them)',
                       'no line break is inserted inside query text (a newline separates queries by definition); no XML comment is inserted inside a text block']
    for p in sorted(glob.glob(os.path.join(common.VERIF, 'replays', 'C09', '*.json'))):
        rec = json.load(open(p))
        case = rec.get('case', rec)
        chk.stats.case('replay:' + os.path.basename(p), True, ['replay'])
        r = confirm(case)
        if r:
            chk.report(chk.stats, {'rewrite': 'replay', 'field': os.path.basename(p)}, r[1], case)
    chk.run_workers(worker)
    return chk.finish(confirm=confirm)


def replay(chk, path):
    chk.build('oracle')
    rec = json.load(open(path))
    case = rec.get('case', rec)
    r = confirm(case)
    if r:
        print('  ' + str(r[1])[:1500])
        print('VIOLATION property=C09 replay=%s' % path)
        return 1
    print('replay: no violation')
    return 0
