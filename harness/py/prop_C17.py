"""C17: analysis methods are reported as supported only when the model permits them."""
import glob
import itertools
import json
import os

from hypothesis import strategies as st

import cells
import common
import oracle

LEVEL = 'exploration'

BASE = 'clock x, y; hybrid clock hx; int i; bool b; double d = 0.5; const double KD = 2.5; broadcast chan bc; int ia[2]; clock ca[2]; '
UNUSED = ('<template><name>Unused</name><parameter>%s</parameter><declaration>%s</declaration><location id="u0"><name>U0</name>%s</location>'
          '<location id="u1"><name>U1</name></location><init ref="u0"/><transition><source ref="u0"/><target ref="u1"/>%s</transition></template>')


def lab(kind, text):
    from xml.sax.saxutils import escape
    return '<label kind="%s">%s</label>' % (kind, escape(text)) if text else ''


def unused_template(params='', decl='', inv=None, guard=None, assign=None):
    from xml.sax.saxutils import escape
    return UNUSED % (escape(params), escape(decl), lab('invariant', inv), lab('guard', guard) + lab('assignment', assign))


def conj_positions(atom, fillers=('i == 0', 'b', 'y >= 1')):
    """the atom at every position of 1-, 2- and 3-conjunct formulas"""
    out = [('only', atom)]
    out.append(('1-of-2', '%s && %s' % (atom, fillers[0])))
    out.append(('2-of-2', '%s && %s' % (fillers[0], atom)))
    for p in range(3):
        parts = [fillers[0], fillers[1]]
        parts.insert(p, atom)
        out.append(('%d-of-3' % (p + 1), ' && '.join(parts)))
    out.append(('nested-right', '%s && (%s && %s)' % (fillers[0], fillers[1], atom)))
    return out


def build_cells():
    """-> list of dict(feature, placement, flag(s), W kwargs, T kwargs (twin without the feature) or None)"""
    C = []

    def add(feature, placement, flags, W, T):
        C.append(dict(feature=feature, placement=placement, flags=flags, W=W, T=T))
    # A: clock compared with a floating-point value
    fvals = [('literal', '1.5', '2'), ('double-variable', 'd', 'i'), ('const-double', 'KD', '3'), ('double-expression', 'd * 2.0', 'i * 2')]
    for op in ['<', '<=', '==', '>=', '>']:
        for vn, fv, iv in fvals if op == '<' else fvals[:1]:
            for order in ('clock-first', 'value-first'):
                atomW = ('x %s %s' % (op, fv)) if order == 'clock-first' else ('%s %s x' % (fv, op))
                atomT = ('x %s %s' % (op, iv)) if order == 'clock-first' else ('%s %s x' % (iv, op))
                for (pn, fw), (_, ft) in zip(conj_positions(atomW), conj_positions(atomT)):
                    add('clock-vs-floating', 'guard:%s:%s:%s:%s' % (op, vn, order, pn), ['symbolic'], dict(guard=fw), dict(guard=ft))
                if op in ('<', '<='):
                    for (pn, fw), (_, ft) in zip(conj_positions(atomW, ('i == 0', 'b', 'y <= 7')), conj_positions(atomT, ('i == 0', 'b', 'y <= 7'))):
                        add('clock-vs-floating', 'invariant:%s:%s:%s:%s' % (op, vn, order, pn), ['symbolic'], dict(inv=fw), dict(inv=ft))
    # the comparison shares the invariant with rates that symbolic analysis allows, before and after them
    for fn, fillers in [('rate0-first-filler', ("y' == 0", 'b', 'y <= 7')), ('rate1-second-filler', ('i == 0', "y' == 1", 'y <= 7')), ('hybrid-rate-filler', ("hx' == 3", 'b', "y' == 0"))]:
        for order, atomW, atomT in [('clock-first', 'x <= 1.5', 'x <= 2'), ('strict', 'x < KD', 'x < 3')]:    # '1.5 >= x' is typed as a guard and rejected as an invariant
            for (pn, fw), (_, ft) in zip(conj_positions(atomW, fillers), conj_positions(atomT, fillers)):
                if pn == 'only':
                    continue
                add('clock-vs-floating', 'invariant-with-rates:%s:%s:%s' % (fn, order, pn), ['symbolic'], dict(inv=fw), dict(inv=ft))
    add('clock-vs-floating', 'guard:difference', ['symbolic'], dict(guard='x - y < 1.5'), dict(guard='x - y < 2'))
    add('clock-vs-floating', 'guard:disjunction-with-clock-free-operand', ['symbolic'], dict(guard='b || x < 1.5'), dict(guard='b || x < 2'))
    add('clock-vs-floating', 'guard:forall-body', ['symbolic'], dict(guard='forall (k : int[0,1]) x < 1.5'), dict(guard='forall (k : int[0,1]) x < 2'))
    add('clock-vs-floating', 'guard:second-edge', ['symbolic'], dict(guard='x >= 1', extra_edges='<transition><source ref="id1"/><target ref="id0"/>%s</transition>' % lab('guard', 'y < 1.5')),
        dict(guard='x >= 1', extra_edges='<transition><source ref="id1"/><target ref="id0"/>%s</transition>' % lab('guard', 'y < 2')))
    add('clock-vs-floating', 'invariant:second-location', ['symbolic'], dict(inv2='x <= 1.5'), dict(inv2='x <= 2'))
    add('clock-vs-floating', 'invariant:with-rate', ['symbolic'], dict(inv="x' == 1 && x <= 1.5"), dict(inv="x' == 1 && x <= 2"))
    add('clock-vs-floating', 'guard:template-local-clock', ['symbolic'], dict(tdecl='clock z; ', guard='z < 1.5'), dict(tdecl='clock z; ', guard='z < 2'))
    # B: non-hybrid clock or variable assigned from a floating-point value
    for tn, lhs, ival in [('clock', 'x', '2'), ('double-variable', 'd', None)]:
        for vn, fv in [('literal', '1.5'), ('double-variable', 'd'), ('const-double', 'KD'), ('double-expression', 'd + 1.0')]:
            if lhs == 'd' and fv == 'd':
                continue
            for pos in range(3):
                for n in (1, 2, 3):
                    if pos >= n:
                        continue
                    others = ['i = 1', 'y = 0']
                    parts = others[:n - 1]
                    parts.insert(pos, '%s = %s' % (lhs, fv))
                    tparts = others[:n - 1]
                    if ival is not None:
                        tparts.insert(pos, '%s = %s' % (lhs, ival))
                    add('assignment-from-floating', 'update:%s:%s:%d-of-%d' % (tn, vn, pos + 1, n), ['symbolic'], dict(assign=', '.join(parts)),
                        dict(assign=', '.join(tparts)) if tparts else dict())
    add('assignment-from-floating', 'update:template-local-clock', ['symbolic'], dict(tdecl='clock z; ', assign='z = 1.5'), dict(tdecl='clock z; ', assign='z = 2'))
    add('assignment-from-floating', 'update:second-edge', ['symbolic'], dict(assign='i = 1', extra_edges='<transition><source ref="id1"/><target ref="id0"/>%s</transition>' % lab('assignment', 'x = 1.5')),
        dict(assign='i = 1', extra_edges='<transition><source ref="id1"/><target ref="id0"/>%s</transition>' % lab('assignment', 'x = 2')))
    # B2: the assignment sits in a branch of a conditional update, targets a clock array element, or sits in the body of a called function
    for pn, fw, ft in [('inline-if-then', 'b ? (x = 1.5) : (x = 2)', 'b ? (x = 3) : (x = 2)'), ('inline-if-else', 'b ? (x = 2) : (x = 1.5)', 'b ? (x = 2) : (x = 3)'),
                       ('inline-if-in-list', 'i = 1, (b ? x = 1.5 : x = 2)', 'i = 1, (b ? x = 3 : x = 2)'), ('nested-inline-if', 'b ? (x = 2) : (i == 0 ? (x = 1.5) : (y = 0))', 'b ? (x = 2) : (i == 0 ? (x = 3) : (y = 0))'),
                       ('inline-if-double-variable', 'b ? (d = 1.5) : (i = 2)', 'b ? (i = 1) : (i = 2)'),
                       ('clock-array-element', 'ca[0] = 1.5', 'ca[0] = 2'), ('clock-array-element-variable-index', 'ca[i] = KD', 'ca[i] = 2')]:
        add('assignment-from-floating', 'update:' + pn, ['symbolic'], dict(assign=fw), dict(assign=ft))
    for pn, where, fdecl, tdecl_ in [('global-function-clock', 'gpost', 'void wf() { x = 1.5; } ', 'void wf() { x = 2; } '),
                                     ('global-function-double', 'gpost', 'void wf() { d = 1.5; } ', 'void wf() { i = 2; } '),
                                     ('template-function-clock', 'tdecl', 'void wf() { x = 1.5; } ', 'void wf() { x = 2; } '),
                                     ('function-call-chain', 'gpost', 'void w0() { x = 1.5; } void wf() { w0(); } ', 'void w0() { x = 2; } void wf() { w0(); } '),
                                     ('function-conditional', 'gpost', 'void wf() { if (b) { x = KD; } } ', 'void wf() { if (b) { x = 2; } } ')]:
        add('assignment-from-floating', 'function-body:' + pn, ['symbolic'], {where: fdecl, 'assign': 'wf()'}, {where: tdecl_, 'assign': 'wf()'})
    # C: clock initialised with a floating-point value
    for where in ('global', 'template'):
        for vn, fv in [('literal', '2.5'), ('const-double', 'KD'), ('expression', '1.0 + 1.5')]:
            for place in ('first', 'last'):
                if where == 'global' and place == 'first' and fv == 'KD':
                    continue   # KD is declared by the base declarations
                dW, dT = 'clock c = %s; ' % fv, 'clock c = 2; '
                if where == 'global':
                    add('clock-floating-initialiser', 'global:%s:%s' % (vn, place), ['symbolic'], dict(gpre=dW) if place == 'first' else dict(gpost=dW),
                        dict(gpre=dT) if place == 'first' else dict(gpost=dT))
                else:
                    pre, post = ('', 'int tl; ') if place == 'first' else ('int tl; ', '')
                    add('clock-floating-initialiser', 'template:%s:%s' % (vn, place), ['symbolic'], dict(tdecl=pre + dW + post), dict(tdecl=pre + dT + post))
    for where in ('global', 'template'):
        for pn, dW, dT in [('clock-array', 'clock cb[2] = {1.5, 2.5}; ', 'clock cb[2] = {1, 2}; '), ('clock-array-second-element', 'clock cb[2] = {1, 2.5}; ', 'clock cb[2] = {1, 2}; '),
                           ('clock-2d-array', 'clock cb[2][2] = {{1, 2}, {1.5, 2}}; ', 'clock cb[2][2] = {{1, 2}, {1, 2}}; '),
                           ('struct-field', 'struct { clock c; int v; } sc = {1.5, 2}; ', 'struct { clock c; int v; } sc = {1, 2}; '),
                           ('struct-second-field', 'struct { int v; clock c; } sc = {2, KD}; ', 'struct { int v; clock c; } sc = {2, 1}; '),
                           ('array-of-struct', 'typedef struct { clock c; int v; } SC; SC sa[2] = {{1, 2}, {1.5, 2}}; ', 'typedef struct { clock c; int v; } SC; SC sa[2] = {{1, 2}, {1, 2}}; '),
                           ('typedef-clock', 'typedef clock CK; CK c = 2.5; ', 'typedef clock CK; CK c = 2; '), ('hybrid-clock', 'hybrid clock hc = 2.5; ', 'hybrid clock hc = 2; '),
                           ('second-of-list', 'clock c1 = 2, c = 2.5; ', 'clock c1 = 2, c = 2; ')]:
            add('clock-floating-initialiser', '%s:%s' % (where, pn), ['symbolic'], dict(gpost=dW) if where == 'global' else dict(tdecl=dW), dict(gpost=dT) if where == 'global' else dict(tdecl=dT))
    # D: non-hybrid clock rate other than 0 or 1
    for rn, rv in [('2', '2'), ('7', '7'), ('0.5', '0.5'), ('2.0', '2.0'), ('minus-1', '-1')]:
        for order in ('rate-first', 'value-first'):
            atomW = ("x' == %s" % rv) if order == 'rate-first' else ("%s == x'" % rv)
            atomT = "x' == 1" if order == 'rate-first' else "1 == x'"
            for (pn, fw), (_, ft) in zip(conj_positions(atomW, ('x <= 5', 'i == 0', 'y <= 7')), conj_positions(atomT, ('x <= 5', 'i == 0', 'y <= 7'))):
                add('clock-rate', 'invariant:%s:%s:%s' % (rn, order, pn), ['symbolic'], dict(inv=fw), dict(inv=ft))
    for pn, fw, ft in [('array-element', "ca[0]' == 2", "ca[0]' == 1"), ('forall-body', "forall (k : int[0,1]) ca[k]' == 2", "forall (k : int[0,1]) ca[k]' == 1"),
                       ('forall-body-in-conjunction', "x <= 5 && (forall (k : int[0,1]) ca[k]' == 2)", "x <= 5 && (forall (k : int[0,1]) ca[k]' == 1)"),
                       ('conjunction-in-forall-body', "forall (k : int[0,1]) (ca[k] <= 5 && ca[k]' == 2)", "forall (k : int[0,1]) (ca[k] <= 5 && ca[k]' == 1)"),
                       ('nested-forall', "forall (k : int[0,1]) forall (j : int[0,1]) ca[j]' == 2 + 0 * k", None),
                       ('nested-forall-literal', "forall (k : int[0,1]) forall (j : int[0,1]) ca[j]' == 2", "forall (k : int[0,1]) forall (j : int[0,1]) ca[j]' == 1"),
                       ('disjunct', "b || x' == 2", "b || x' == 1"), ('imply-consequent', "b imply x' == 2", "b imply x' == 1"),
                       ('imply-in-forall', "forall (k : int[0,1]) (b imply ca[k]' == 0.5)", "forall (k : int[0,1]) (b imply ca[k]' == 0)")]:
        if ft is None:
            continue    # a rate given by a non-literal expression is outside the cells
        add('clock-rate', 'invariant:' + pn, ['symbolic'], dict(inv=fw), dict(inv=ft))
    add('clock-rate', 'invariant:second-location', ['symbolic'], dict(inv2="y' == 3"), dict(inv2="y' == 0"))
    add('clock-rate', 'invariant:template-local-clock', ['symbolic'], dict(tdecl='clock z; ', inv="z' == 2"), dict(tdecl='clock z; ', inv="z' == 1"))
    # E: dynamic template declared
    dyn_t = '<template><name>Child</name><location id="c0"><name>C0</name></location><init ref="c0"/></template>'
    add('dynamic-template', 'declared-and-spawned', ['symbolic'], dict(gpost='dynamic Child(); ', extra_templates=dyn_t, assign='spawn Child()'), dict())
    add('dynamic-template', 'declared-only', ['symbolic'], dict(gpost='dynamic Child(); ', extra_templates=dyn_t), dict())
    add('dynamic-template', 'declared-first', ['symbolic'], dict(gpre='dynamic Child(); ', extra_templates=dyn_t), dict())
    # F: a declared channel that is not broadcast
    for kn, decl, tdecl_ in [('plain', 'chan c; ', 'broadcast chan c; '), ('urgent', 'urgent chan c; ', 'urgent broadcast chan c; '),
                             ('array', 'chan c[2]; ', 'broadcast chan c[2]; '), ('typedef', 'typedef chan CH; CH c; ', 'typedef broadcast chan CH; CH c; '),
                             ('2d-array', 'chan c[2][2]; ', 'broadcast chan c[2][2]; '), ('list', 'broadcast chan c0, c; chan c1; ', 'broadcast chan c0, c; broadcast chan c1; ')]:
        add('non-broadcast-channel', 'global:%s:first' % kn, ['stochastic'], dict(gpre=decl), dict(gpre=tdecl_))
        add('non-broadcast-channel', 'global:%s:last' % kn, ['stochastic'], dict(gpost=decl), dict(gpost=tdecl_))
        add('non-broadcast-channel', 'template-local:%s' % kn, ['stochastic'], dict(tdecl=decl), dict(tdecl=tdecl_))
        add('non-broadcast-channel', 'global:%s:used-in-sync' % kn, ['stochastic'], dict(gpost=decl, sync='c!' if kn in ('plain', 'urgent', 'typedef', 'list') else ('c[0]!' if kn == 'array' else 'c[0][1]!')),
            dict(gpost=tdecl_, sync='c!' if kn in ('plain', 'urgent', 'typedef', 'list') else ('c[0]!' if kn == 'array' else 'c[0][1]!')))
    add('non-broadcast-channel', 'template-parameter', ['stochastic'], dict(gpost='chan c; ', tparams='chan &pc', inst='Q = P(c);', system='system Q;'),
        dict(gpost='broadcast chan c; ', tparams='broadcast chan &pc', inst='Q = P(c);', system='system Q;'))
    # G: priorities
    add('priorities', 'channel-priority', ['stochastic', 'concrete'], dict(gpost='broadcast chan p1, p2; chan priority p1 < p2; '), dict(gpost='broadcast chan p1, p2; '))
    add('priorities', 'channel-priority-default', ['stochastic', 'concrete'], dict(gpost='broadcast chan p1, p2; chan priority p1 < default < p2; '), dict(gpost='broadcast chan p1, p2; '))
    add('priorities', 'channel-priority-single-channel', ['stochastic', 'concrete'], dict(gpost='broadcast chan p1, p2; chan priority p1; '), dict(gpost='broadcast chan p1, p2; '))
    add('priorities', 'channel-priority-one-level-two-channels', ['stochastic', 'concrete'], dict(gpost='broadcast chan p1, p2; chan priority p1, p2; '), dict(gpost='broadcast chan p1, p2; '))
    add('priorities', 'channel-priority-array-element', ['stochastic', 'concrete'], dict(gpost='broadcast chan pa[2]; chan priority pa[1]; '), dict(gpost='broadcast chan pa[2]; '))
    add('priorities', 'channel-priority-default-only', ['stochastic', 'concrete'], dict(gpost='broadcast chan p1; chan priority default; '), dict(gpost='broadcast chan p1; '))
    add('priorities', 'channel-priority-template-local', ['stochastic', 'concrete'], dict(tdecl='broadcast chan lp1, lp2; chan priority lp1 < lp2; '), dict(tdecl='broadcast chan lp1, lp2; '))
    add('priorities', 'process-priority', ['stochastic', 'concrete'], dict(inst='Q = P(); R = P();', system='system Q < R;'), dict(inst='Q = P(); R = P();', system='system Q, R;'))
    add('priorities', 'process-priority-three-levels', ['stochastic', 'concrete'], dict(inst='Q = P(); R = P(); S = P();', system='system Q < R, S;'),
        dict(inst='Q = P(); R = P(); S = P();', system='system Q, R, S;'))
    # how the template becomes part of the system: every cell that does not fix this itself is repeated in three more styles
    styles = [('instantiated', dict(inst='Q = P();', system='system Q;')),
              ('process-set-with-free-parameter', dict(tparams='const int[0,1] fp', system='system P;')),
              ('partial-instantiation', dict(tparams='const int[0,1] fp', inst='Q(const int[0,1] q) = P(q);', system='system Q;')),
              ('two-instances', dict(tparams='const int fp', inst='Q = P(1); R = P(2);', system='system Q, R;'))]
    extra = []
    for c in C:
        if any(k in c['W'] or k in c['T'] for k in ('tparams', 'inst', 'system')):
            continue
        for sn, skw in styles:
            extra.append(dict(feature=c['feature'], placement=c['placement'] + '@' + sn, flags=c['flags'], W=dict(c['W'], **skw), T=dict(c['T'], **skw)))
    return C + extra


def assemble(kw):
    kw = dict(kw)
    g = kw.pop('gpre', '') + BASE + kw.pop('gpost', '')
    return cells.model(gdecl=g, **kw)


def unused_variants():
    """never-instantiated templates carrying a restricting feature (must not change the verdict)"""
    return [('guard-floating', unused_template(guard='x < 1.5')), ('invariant-floating', unused_template(inv='x <= 1.5')),
            ('update-floating', unused_template(assign='x = 1.5')), ('rate', unused_template(inv="x' == 2")),
            ('local-clock-floating-initialiser', unused_template(decl='clock c = 2.5;')), ('local-channel', unused_template(decl='chan lc;')),
            ('channel-parameter', unused_template(params='chan &pc')), ('rate-in-forall-body', unused_template(inv="forall (k : int[0,1]) ca[k]' == 2")),
            ('local-clock-array-floating-initialiser', unused_template(decl='clock cb[2] = {1.5, 2.5};')), ('conditional-update-floating', unused_template(assign='b ? (x = 1.5) : (x = 2)')),
            ('local-function-assigning-floating', unused_template(decl='void lf() { x = 1.5; }', assign='lf()')), ('three-features', unused_template(decl='chan lc; clock c = 2.5;', guard='x < 1.5 && i == 0', assign='x = 1.5, i = 1'))]


RULE = ('cell enumeration: restricting feature x placement. clock compared with a floating value (guard and invariant; every '
        'relational operator; literal / double variable / const double / double expression; clock first or value first; every '
        'conjunct position of 1-, 2- and 3-conjunct formulas and a nested conjunction; clock difference; disjunction with a '
        'clock-free operand; forall body; second edge / second location; together with a rate; before, between and after rates that symbolic analysis allows; template-local clock), '
        'assignment of a clock or double variable from a floating value (every position of 1..3-element update lists, four value '
        'shapes, second edge, template-local clock, branches of conditional updates, clock array elements, bodies of global and '
        'template-local functions called from the update incl. a call chain), clock initialised with a floating value (global / '
        'template-local, first / last declaration; clock arrays, 2-d arrays, record fields, arrays of records, typedef, hybrid, '
        'second of a declaration list), clock rate other than 0 or 1 (2, 7, 0.5, 2.0, -1; either operand order; every conjunct position; '
        'second location; local clock; clock array element; forall bodies incl. nested and with conjunctions; disjunct; implication consequent), dynamic template declared (spawned or not, first or last), non-broadcast channel '
        'declared (plain, urgent, array, 2-d array, typedef, in a declaration list; global first / last, template-local, used '
        'in a synchronisation, as a template parameter), channel and process priorities; every cell additionally with the template '
        'entering the system as an explicit instance, as a process set with a free parameter, through a partial instantiation '
        'and as two instances; a stride of the cells additionally spliced into larger generated models (host embedding: other declarations, templates and processes around the cell, identifiers renamed apart; the embedded twin tells whether the host alone already gives a false verdict). (continued) '
        'in a synchronisation, as a template parameter), channel and process priorities. For each accepted model carrying the '
        'feature in an instantiated template the corresponding verdict must be false (symbolic / stochastic / concrete); the twin '
        'without the feature shows that the cell is attributable (a twin that is already false makes the cell vacuous: counted). '
        'Metamorphic: adding a never-instantiated template that contains a feature, and permuting independent global '
        'declarations, leave the verdict unchanged (all cells x 12 unused templates in thorough, a stride in quick; Hypothesis '
        'draws permutations). Non-trivial: the model is accepted and the twin verdict is true; distinct = (feature, placement).')


def worker(chk, wi, nw):
    stats = common.Stats()
    orc = oracle.Oracle(os.path.join(chk.workdir, 'w%d' % wi), cpu_limit=60)
    run = cells.Runner(orc, stats)
    allc = build_cells()
    mine = [c for k, c in enumerate(allc) if k % nw == wi]
    res = run.run_many([(assemble(c['W']), None) for c in mine] + [(assemble(c['T']), None) for c in mine])
    n = len(mine)
    for k, c in enumerate(mine):
        w, t = res[k], res[n + k]
        desc_base = {'feature': c['feature'], 'placement': c['placement']}
        if w['crash']:
            stats.extra['crashes_seen_(C01)'] += 1
            continue
        if w['exc']:
            # an exception out of the parse: the verdict is lost; the statement speaks about accepted models -> report as its own kind
            stats.case(c['feature'] + '|' + c['placement'], nontrivial=True, classes=['feature:' + c['feature'], 'W:exception'],
                       sample={'feature': c['feature'], 'placement': c['placement'], 'exception': w['exc']})
            chk.report(stats, dict(desc_base, flag='exception:' + w['exc']), 'feature %s at %s: the parse ends in %s, no verdict is delivered' % (c['feature'], c['placement'], w['exc']),
                       {'kind': 'model', 'xml': assemble(c['W']), 'flags': c['flags']})
            continue
        if w['errors']:
            stats.extra['cell_model_not_accepted'] += 1
            stats.notes.setdefault('not_accepted', []).append('%s %s: %r' % (c['feature'], c['placement'], w['errors'][:1]))
            stats.evaluations += 1
            continue
        vac = [f for f in c['flags'] if not (t['methods'] or {}).get(f, False)] if not t['errors'] else list(c['flags'])
        stats.case(c['feature'] + '|' + c['placement'], nontrivial=not vac,
                   classes=['feature:' + c['feature'], 'placement:' + c['placement'].split(':')[0], 'style:' + (c['placement'].split('@')[1] if '@' in c['placement'] else 'plain')] + (['vacuous-twin'] if vac else []),
                   sample={'feature': c['feature'], 'placement': c['placement'], 'methods': w['methods'], 'twin_methods': t['methods']})
        for f in c['flags']:
            if w['methods'].get(f):
                chk.report(stats, dict(desc_base, flag=f), 'feature %s at %s: %s analysis is reported as supported (%r)' % (c['feature'], c['placement'], f, w['methods']),
                           {'kind': 'model', 'xml': assemble(c['W']), 'flags': [f]})
    # the same cells spliced into larger generated models: other declarations, templates and processes around P must not hide the feature
    import gen_model as M
    estride = 11 if chk.tier == 'quick' else 2

    def etest(args):
        m, off = args
        host = cells.host_from_model(m, off)
        subset = mine[off % estride::estride]
        with cells.embedding(host):
            texts = [assemble(c['W']) for c in subset] + [assemble(c['T']) for c in subset]
        eres = run.run_many([(x, None) for x in texts])
        ns = len(subset)
        for k, c in enumerate(subset):
            w, t = eres[k], eres[ns + k]
            if w['crash']:
                stats.extra['crashes_seen_(C01)'] += 1
                continue
            if w['errors'] or w['exc']:
                stats.extra['embedded_model_not_accepted'] += 1
                stats.evaluations += 1
                continue
            vac = [f for f in c['flags'] if not (t['methods'] or {}).get(f, False)] if not (t['errors'] or t['exc'] or t['crash']) else list(c['flags'])
            stats.case('embedded|%s|%s|%s' % (c['feature'], c['placement'], texts[k]), nontrivial=not vac,
                       classes=['embedded', 'feature:' + c['feature']] + (['embedded:host-verdict-already-false'] if vac else []),
                       sample={'feature': c['feature'], 'placement': c['placement'], 'embedded': True, 'methods': w['methods'], 'twin_methods': t['methods'],
                               'host_processes': host['processes'][:4]})
            for f in c['flags']:
                if w['methods'].get(f):
                    chk.report(stats, {'feature': c['feature'], 'placement': c['placement'], 'flag': f + '@embedded'},
                               'feature %s at %s inside a larger generated model: %s analysis is reported as supported (%r)' % (c['feature'], c['placement'], f, w['methods']),
                               {'kind': 'model', 'xml': texts[k], 'flags': [f]})
        return None

    common.run_hypothesis(chk, stats, st.tuples(M.models(need_clean=True, max_templates=2), st.integers(0, 1000)), etest, 3 if chk.tier == 'quick' else 20,
                          chk.seed * 1000 + 500 + wi, shrink=False)

    # metamorphic: unused templates and declaration order
    stride = 1 if chk.tier == 'thorough' else 5
    items = []
    meta = []
    for k, c in enumerate(mine):
        if k % stride:
            continue
        for which in ('W', 'T'):
            kw = c[which]
            if 'extra_templates' in kw:
                continue
            for un, ut in unused_variants():
                kw2 = dict(kw)
                kw2['extra_templates'] = ut
                items.append((assemble(kw2), None))
                meta.append((c, which, un))
    res2 = run.run_many(items)
    base = run.run_many([(assemble(c[which]), None) for (c, which, un) in meta])
    for (c, which, un), r, b0 in zip(meta, res2, base):
        if r['crash'] or b0['crash'] or b0['errors'] or b0['exc']:
            continue
        stats.case('unused|%s|%s|%s|%s' % (c['feature'], c['placement'], which, un), nontrivial=True, classes=['metamorphic:unused-template', 'unused:' + un],
                   sample={'base': c['feature'] + ' ' + c['placement'] + ' ' + which, 'unused_template': un, 'methods': r['methods'], 'base_methods': b0['methods']})
        if r['errors'] or r['exc'] or r['methods'] != b0['methods']:
            chk.report(stats, {'feature': 'unused-template:' + un, 'placement': which, 'flag': 'changed'},
                       'adding the never-instantiated template %s to %s/%s (%s) changes the result: %r -> %r %r' % (un, c['feature'], c['placement'], which, b0['methods'], r['methods'], r['errors'][:1]),
                       {'kind': 'pair', 'xml': items[meta.index((c, which, un))][0], 'base': assemble(c[which])})

    # declaration order: permute independent global declarations
    DECLS = ['clock x, y;', 'hybrid clock hx;', 'int i;', 'bool b;', 'double d = 0.5;', 'const double KD = 2.5;', 'broadcast chan bc;', 'int ia[2];', 'clock ca[2];']
    EXTRA = [('chan c;', None), ('clock c = 2.5;', None), ('urgent chan uc;', None), ('broadcast chan p1, p2; chan priority p1 < p2;', None), ('clock cc = 2;', None), ('int unusedv;', None)]

    def test(args):
        perm, extras, guard = args
        decls = list(DECLS) + [EXTRA[e][0] for e in extras]
        ref = ' '.join(decls) + ' '
        permuted = ' '.join(decls[p] for p in perm if p < len(decls)) + ' '
        kw = dict(guard=guard)
        a, b2 = run.run_many([(cells.model(gdecl=ref, **kw), None), (cells.model(gdecl=permuted, **kw), None)])
        stats.case('perm|%s|%s' % (permuted, guard), nontrivial=permuted != ref, classes=['metamorphic:declaration-order'],
                   sample={'declarations': permuted, 'guard': guard, 'methods': b2['methods']})
        if a['crash'] or b2['crash'] or a['errors'] or a['exc']:
            return None
        if b2['errors'] or b2['methods'] != a['methods']:
            d = {'feature': 'declaration-order', 'placement': ','.join(sorted(EXTRA[e][0].split(' ')[0] for e in extras)) or 'none', 'flag': 'changed'}
            what = 'permuting independent declarations changes the result: %r (%s) -> %r (%s) %r' % (a['methods'], ref, b2['methods'], permuted, b2['errors'][:1])
            case = {'kind': 'pair', 'xml': cells.model(gdecl=permuted, **kw), 'base': cells.model(gdecl=ref, **kw)}
            if chk.is_known(d):
                chk.report(stats, d, what, case)
                return None
            return (d, what, case)
        return None

    nperm = 60 if chk.tier == 'quick' else 1500
    strat = st.tuples(st.permutations(list(range(len(DECLS) + 3))), st.lists(st.integers(0, len(EXTRA) - 1), max_size=3, unique=True),
                      st.sampled_from(['x >= 1', 'x < 1.5', 'i == 0 && x < d', 'b']))
    common.run_hypothesis(chk, stats, strat, test, nperm, chk.seed * 1000 + wi, shrink=False)
    orc.close()
    return stats


def confirm(case):
    orc = oracle.Oracle(os.path.join(common.WORK, 'C17', 'confirm'), cpu_limit=30)
    try:
        run = cells.Runner(orc, common.Stats())
        if case['kind'] == 'model':
            d = run.run_many([(case['xml'], None)])[0]
            if d['exc']:
                return ({}, 'exception %s' % d['exc'])
            if d['errors']:
                return None
            bad = [f for f in case['flags'] if d['methods'].get(f)]
            return ({}, 'reported as supported: %r' % bad) if bad else None
        a, b = run.run_many([(case['base'], None), (case['xml'], None)])
        if a['errors'] or a['exc']:
            return None
        if b['errors'] or b['exc'] or a['methods'] != b['methods']:
            return ({}, '%r vs %r %r' % (a['methods'], b['methods'], b['errors'][:1]))
        return None
    finally:
        orc.close()


def run(chk):
    chk.build('oracle')
    chk.rule = RULE
    chk.assumptions = ['one-directional, as stated: only "feature present => verdict false" is required; the twin verdict is used to mark vacuous cells, not as a requirement',
                       'a clock rate given by a non-constant expression is outside the cells (the repository\'s own test expects symbolic support for x\' == myRate)']
    for p in sorted(glob.glob(os.path.join(common.VERIF, 'replays', 'C17', '*.json'))):
        rec = json.load(open(p))
        case = rec.get('case', rec)
        chk.stats.case('replay:' + os.path.basename(p), True, ['replay'])
        r = confirm(case)
        if r:
            chk.report(chk.stats, {'feature': 'replay', 'placement': os.path.basename(p), 'flag': 'replay'}, r[1], case)
    chk.run_workers(worker)
    chk.explanation = 'the (feature x placement) cell table is enumerated completely; the metamorphic part is a stride (quick) or complete (thorough) plus sampled permutations'
    return chk.finish(confirm=confirm)


def replay(chk, path):
    chk.build('oracle')
    rec = json.load(open(path))
    case = rec.get('case', rec)
    r = confirm(case)
    if r:
        print('  ' + str(r[1])[:1500])
        print('VIOLATION property=C17 replay=%s' % path)
        return 1
    print('replay: no violation')
    return 0
