"""C20: the XML writer's template graph mirrors the document it was given."""
import glob
import json
import os
import re
from xml.dom import minidom

from hypothesis import strategies as st

import common
import gen_model as M
import oracle
from prop_C04 import classes_of, nontrivial, NOISE

LEVEL = 'exploration'
RULE = ('accepted (no error) timed-automata models from gen_model.py (self loops, parallel edges, anonymous locations, trivially '
        'true guards, all label kinds, uncontrollable edges, selects with several binders; a share with edges through '
        'branchpoints) are parsed with the Document* overload and written with write_XML_file; the file is read with Python\'s '
        'xml.dom.minidom (independent of libxml2 and of utap) and compared with the document: per TA template one <location> '
        'per location with unique id, its name, invariant and exponentialrate label text (the library\'s own str(), modulo the '
        'writer\'s "1 && " strip), exactly one <init ref> naming the initial location, one <transition> per edge in order with '
        'source/target refs identifying the endpoints, controllable attribute consistent with the edge, and '
        'select/guard/synchronisation/assignment/probability labels for every non-trivial select list and expression. For '
        'templates with edges through branchpoints the branchpoint endpoints must be identifiable too. Writing must never '
        'crash or throw. Non-trivial as C04 and at least one edge; distinct = distinct input XML texts.')


def text_of(node):
    return ''.join(ch.data for ch in node.childNodes if ch.nodeType in (ch.TEXT_NODE, ch.CDATA_SECTION_NODE))


def strip1(s):
    return s[5:] if s.startswith('1 && ') else s


def labels_of(el):
    out = {}
    for ch in el.childNodes:
        if ch.nodeType == ch.ELEMENT_NODE and ch.tagName == 'label':
            out.setdefault(ch.getAttribute('kind'), []).append(text_of(ch))
    return out


def norm_type(t):
    t = t.strip()
    return t[6:].strip() if t.startswith('const ') else t


def compare(w):
    """w: the server's 'write' record. -> None or (field, what)"""
    if w.get('exc'):
        return ('throws:' + w['exc']['class'], 'write_XML_file threw %s: %s' % (w['exc']['class'], w['exc']['what']))
    try:
        dom = minidom.parseString(w['content'].encode('latin-1', 'replace'))
    except Exception as e:
        return ('not-well-formed', 'written file is not well-formed XML: %s' % e)
    tels = [e for e in dom.documentElement.childNodes if e.nodeType == e.ELEMENT_NODE and e.tagName == 'template']
    tas = [t for t in w['templates'] if t['is_TA']]
    if len(tels) != len(tas):
        return ('template-count', 'document has %d TA templates, file has %d <template>' % (len(tas), len(tels)))
    for t, tel in zip(tas, tels):
        tn = t['name']
        kids = [e for e in tel.childNodes if e.nodeType == e.ELEMENT_NODE]
        locs = [e for e in kids if e.tagName == 'location']
        bps = [e for e in kids if e.tagName == 'branchpoint']
        inits = [e for e in kids if e.tagName == 'init']
        trans = [e for e in kids if e.tagName == 'transition']
        if len(locs) != len(t['locations']):
            return ('location-count', '%s: %d locations, %d <location>' % (tn, len(t['locations']), len(locs)))
        ids = {}
        for l, lel in zip(t['locations'], locs):
            lid = lel.getAttribute('id')
            if not lid or lid in ids:
                return ('location-id', '%s: location %s has missing or duplicate id %r' % (tn, l['name'], lid))
            ids[lid] = 'L:' + l['name']
            names = [text_of(e) for e in lel.childNodes if e.nodeType == e.ELEMENT_NODE and e.tagName == 'name']
            if names != [l['name']]:
                return ('location-name', '%s: location %s written with name(s) %r' % (tn, l['name'], names))
            labs = labels_of(lel)
            for kind, key in (('invariant', 'invariant'), ('exponentialrate', 'exp_rate')):
                want = l[key]
                got = labs.get(kind, [])
                if want == '' or (kind == 'invariant' and l['invariant_true']):
                    if len(got) > 1:
                        return ('location-' + kind, '%s.%s: %d %s labels' % (tn, l['name'], len(got), kind))
                    continue
                if len(got) != 1 or strip1(got[0]) != strip1(want):
                    return ('location-' + kind, '%s.%s: %s is %r, file has %r' % (tn, l['name'], kind, want, got))
        through_bp = any(not (e['src'].startswith('L:') and e['dst'].startswith('L:')) for e in t['edges'])
        if through_bp:
            # branchpoints must be written with ids so that the endpoints can be identified
            if len(bps) != len(t['branchpoints']):
                return ('branchpoint-count', '%s: %d branchpoints, %d <branchpoint>' % (tn, len(t['branchpoints']), len(bps)))
            for b, bel in zip(t['branchpoints'], bps):
                bid = bel.getAttribute('id')
                if not bid or bid in ids:
                    return ('branchpoint-id', '%s: branchpoint %s has missing or duplicate id %r' % (tn, b, bid))
                ids[bid] = 'B:' + b
        if len(inits) != 1:
            return ('init-count', '%s: %d <init> elements' % (tn, len(inits)))
        if ids.get(inits[0].getAttribute('ref')) != 'L:' + t['init']:
            return ('init-ref', '%s: init is %s, file refers to %r' % (tn, t['init'], ids.get(inits[0].getAttribute('ref'))))
        if len(trans) != len(t['edges']):
            return ('transition-count', '%s: %d edges, %d <transition>' % (tn, len(t['edges']), len(trans)))
        for k, (e, eel) in enumerate(zip(t['edges'], trans)):
            ek = [x for x in eel.childNodes if x.nodeType == x.ELEMENT_NODE]
            src = [x.getAttribute('ref') for x in ek if x.tagName == 'source']
            dst = [x.getAttribute('ref') for x in ek if x.tagName == 'target']
            if len(src) != 1 or ids.get(src[0]) != e['src']:
                return ('transition-source', '%s edge %d: source is %s, file refers to %r' % (tn, k, e['src'], [ids.get(s) for s in src]))
            if len(dst) != 1 or ids.get(dst[0]) != e['dst']:
                return ('transition-target', '%s edge %d: target is %s, file refers to %r' % (tn, k, e['dst'], [ids.get(s) for s in dst]))
            ca = eel.getAttribute('controllable') if eel.hasAttribute('controllable') else None
            written_control = True if ca is None else (ca == 'true')
            if written_control != e['control']:
                return ('transition-controllable', '%s edge %d: control is %r, attribute is %r' % (tn, k, e['control'], ca))
            labs = labels_of(eel)
            for kind, key in (('guard', 'guard'), ('synchronisation', 'sync'), ('assignment', 'assign'), ('probability', 'prob')):
                want = e[key]
                got = labs.get(kind, [])
                trivial = want == '' or (key != 'sync' and e[key + '_true'])
                if trivial:
                    if len(got) > 1:
                        return ('label-' + kind, '%s edge %d: %d %s labels' % (tn, k, len(got), kind))
                    continue
                if len(got) != 1 or strip1(got[0]) != strip1(want):
                    return ('label-' + kind, '%s edge %d: %s is %r, file has %r' % (tn, k, kind, want, got))
            if e['select']:
                got = labs.get('select', [])
                if len(got) != 1:
                    return ('label-select', '%s edge %d: %d select labels for %d binders' % (tn, k, len(got), len(e['select'])))
                items = [x.strip() for x in re.split(r',(?![^\[]*\])', got[0])]
                pairs = [tuple(p.strip() for p in it.split(':', 1)) for it in items if ':' in it]
                want = [(s['name'], norm_type(s['type'])) for s in e['select']]
                gotp = [(p[0], norm_type(p[1])) for p in pairs]
                if gotp != want:
                    return ('label-select', '%s edge %d: selects %r, file has %r' % (tn, k, want, got[0]))
    return None


def check_xml(orc, xml):
    """-> ('skip', why) | None | (descriptor, what)"""
    r = orc.request([dict(entry='xml-buffer', builder='document', newxta=1, input=xml, dump='diag', actions='write')])
    if 'crash' in r:
        d = oracle.crash_descriptor(r['crash'])
        # was it the parse or the writer? parse alone
        r2 = orc.request([dict(entry='xml-buffer', builder='document', newxta=1, input=xml, dump='diag')])
        if 'crash' in r2:
            return ('skip', 'parse crashes (C01)')
        if r2['steps'][0]['errors']:
            return ('skip', 'not accepted')
        return ({'field': 'crash:' + d['kind'], 'where': d['frames']}, r['crash'].get('stderr', '')[:1500])
    stp = r['steps'][0]
    if stp.get('exc') or stp['errors'] or stp.get('ret') != 0:
        return ('skip', 'not accepted')
    v = compare(stp['write'])
    if v is None:
        return None
    return ({'field': v[0]}, v[1])


def worker(chk, wi, nw):
    stats = common.Stats()
    orc = oracle.Oracle(os.path.join(chk.workdir, 'w%d' % wi), cpu_limit=30)

    def test(args):
        m, noise = args
        xml = m.xml(noise)
        v = check_xml(orc, xml)
        if isinstance(v, tuple) and v[0] == 'skip':
            stats.evaluations += 1
            stats.extra['filtered_' + v[1].split(' ')[0]] += 1
            return None
        has_edges = any(t.edges for t in m.templates)
        bp = any(e.src[0] == 'B' or e.dst[0] == 'B' for t in m.templates for e in t.edges)
        stats.case(xml, nontrivial=nontrivial(m) and has_edges, classes=classes_of(m) + (['edges-through-branchpoints'] if bp else ['edges-connect-locations']),
                   sample={'xml_prefix': xml[:600]})
        if v is None:
            return None
        d, what = v
        case = {'kind': 'xml', 'xml': xml}
        if chk.is_known(d):
            chk.report(stats, d, what, case)
            return None
        return (d, what, case)

    n = 330 if chk.tier == 'quick' else 7000
    common.run_hypothesis(chk, stats, st.tuples(M.models(need_clean=True), NOISE), test, n, chk.seed * 1000 + wi)
    orc.close()
    return stats


def confirm(case):
    orc = oracle.Oracle(os.path.join(common.WORK, 'C20', 'confirm'), cpu_limit=30)
    try:
        v = check_xml(orc, case['xml'])
        if v is None or v[0] == 'skip':
            return None
        return v
    finally:
        orc.close()


def run(chk):
    chk.build('oracle')
    chk.rule = RULE
    chk.assumptions = ['label text is compared with the library\'s own str() of the expression (C03 decides whether that text is right)',
                       'urgent/committed flags, coordinates, nails, declarations and the system section are not compared (not listed by the statement)']
    for p in sorted(glob.glob(os.path.join(common.VERIF, 'replays', 'C20', '*.json'))):
        rec = json.load(open(p))
        r = confirm(rec)
        chk.stats.case('replay:' + p, True, ['replay'])
        if r:
            chk.report(chk.stats, r[0], r[1], rec)
    chk.run_workers(worker)
    return chk.finish(confirm=confirm)


def replay(chk, path):
    chk.build('oracle')
    rec = json.load(open(path))
    case = rec.get('case', rec)
    r = confirm(case)
    if r:
        print('  ' + str(r[1])[:1500])
        print('VIOLATION property=C20 replay=%s' % path)
        return 1
    print('replay: no violation')
    return 0
