"""Text blocks of an XML model, layout noise and single-fault injection at token positions (C06, C16, C09)."""
import re
import xml.etree.ElementTree as ET

import tokenizer as T

BLOCK_LABELS = ('invariant', 'exponentialrate', 'select', 'guard', 'synchronisation', 'assignment', 'probability')
NONDECL_LABELS = ('invariant', 'exponentialrate', 'guard', 'synchronisation', 'assignment', 'probability')


class Doc:
    """An XML model as an element tree with addressable text blocks."""

    def __init__(self, xml_text):
        self.root = ET.fromstring(xml_text.encode('utf-8'))
        self.blocks = []   # dict(kind, path, el)
        self._walk(self.root, '/' + self.root.tag)

    def _walk(self, el, path):
        counts = {}
        for ch in el:
            counts[ch.tag] = counts.get(ch.tag, 0) + 1
            indexed = ch.tag in ('template', 'location', 'branchpoint', 'transition', 'label', 'nail', 'query')
            p = '%s/%s%s' % (path, ch.tag, '[%d]' % counts[ch.tag] if indexed else '')
            kind = None
            if ch.tag == 'declaration':
                kind = 'declaration' if el.tag == 'nta' else 'local-declaration'
            elif ch.tag in ('parameter', 'instantiation', 'system'):
                kind = ch.tag
            elif ch.tag == 'label' and ch.get('kind') in BLOCK_LABELS:
                kind = ch.get('kind')
            if kind and (ch.text or '').strip():
                self.blocks.append({'kind': kind, 'path': p, 'el': ch})
            self._walk(ch, p)

    def text_of(self, block):
        return block['el'].text or ''

    def serialize(self, override=None):
        """XML text with block texts replaced: override = {path: text}. CR is written as &#13; so that it reaches the lexer."""
        saved = {}
        if override:
            for b in self.blocks:
                if b['path'] in override:
                    saved[b['path']] = b['el'].text
                    b['el'].text = override[b['path']]
        out = ET.tostring(self.root, encoding='unicode')
        for b in self.blocks:
            if b['path'] in saved:
                b['el'].text = saved[b['path']]
        return '<?xml version="1.0" encoding="utf-8"?>\n' + out.replace('\r', '&#13;')


def resolve_path(xml_text, path):
    """independent evaluation of the reader's /a/b[n]/c paths on the same bytes: list of matching elements"""
    root = ET.fromstring(xml_text.encode('utf-8'))
    parts = [p for p in path.split('/') if p]
    if not parts or re.sub(r'\[\d+\]', '', parts[0]) != root.tag:
        return []
    cur = [root]
    for p in parts[1:]:
        m = re.fullmatch(r'([A-Za-z_]+)(?:\[(\d+)\])?', p)
        if not m:
            return []
        nxt = []
        for el in cur:
            kids = [c for c in el if c.tag == m.group(1)]
            if m.group(2):
                i = int(m.group(2))
                if 1 <= i <= len(kids):
                    nxt.append(kids[i - 1])
            else:
                nxt.extend(kids)
        cur = nxt
    return cur


# ---------------------------------------------------------------- layout noise
NOISE_SEPS = [' ', '  ', '\n', '\t', ' /* c */ ', '\n// note\n', ' \\\n', '\n\n', ' /* multi\nline */ ',
              ' /**/ ', ' /***/ ', ' /* x **/ ', ' /** doc */ ', ' /* a * b / c */ ', ' /****/ ', ' /*/ x */ ', ' /* ** */ ', '\n//* not a block comment\n', ' /* // */ ']


def add_noise(text, choose, crlf=False, lead=''):
    """re-space a block: choose(i, n) -> index into NOISE_SEPS (or None to keep). Tokens are never split."""
    toks = T.tokens(text, keep_space=True)
    out = [lead]
    gap = 0
    for k, (kind, tx, a, b) in enumerate(toks):
        if kind in ('ws',):
            c = choose(gap, len(NOISE_SEPS))
            gap += 1
            if k > 0 and toks[k - 1][0] == 'lcomment':
                out.append(tx)      # the line break that ends a // comment is not layout
            else:
                out.append(NOISE_SEPS[c] if c is not None else tx)
        else:
            out.append(tx)
    s = ''.join(out)
    if crlf:
        # the lexer's continuation rule is backslash, blanks, LF: keep those line ends as they are
        s = re.sub(r'(?<!\\)((?:\\\\)*)\n', lambda mo: mo.group(1) + '\r\n', s.replace('\r\n', '\n'))
        s = re.sub(r'\\([\t ]*)\r\n', lambda mo: '\\' + mo.group(1) + '\n', s)
    return s


# ---------------------------------------------------------------- faults
DECLARING_BLOCK_FAULTS = ['unbalanced-open', 'unbalanced-close', 'stray-token', 'unterminated-comment']
FAULT_KINDS = ['undeclared', 'drop-token', 'unbalanced-open', 'unbalanced-close', 'stray-token', 'type-error', 'side-effect', 'unterminated-comment']


def apply_fault(text, kind, ti, variant=0):
    """apply fault `kind` at (non-space) token index ti. returns (new_text, info) or None if not applicable there"""
    toks = T.tokens(text)
    if not toks or ti >= len(toks):
        return None
    k, tx, a, b = toks[ti]
    prev = toks[ti - 1] if ti > 0 else None
    nxt = toks[ti + 1] if ti + 1 < len(toks) else None
    binder = bool(nxt and nxt[1] == ':' and prev and prev[1] == '(' and ti >= 2 and toks[ti - 2][1] in ('forall', 'exists', 'sum'))
    if kind == 'undeclared':
        if not T.is_user_identifier(toks[ti]) or (prev and prev[1] == '.') or binder:
            return None
        name = 'undeclared_zq%d' % variant
        return text[:a] + name + text[b:], {'ident': name, 'offset': a}
    if kind == 'drop-token':
        if tx in ('!', '?') and nxt is None:
            return None  # 'c!' -> 'c' is a valid (CSP) synchronisation, not a fault of this label
        return text[:a] + text[b:], {'dropped': tx}
    if kind == 'unbalanced-open':
        return text[:a] + ['(', '[', '{'][variant % 3] + text[a:], {}
    if kind == 'unbalanced-close':
        return text[:b] + [')', ']', '}'][variant % 3] + text[b:], {}
    if kind == 'stray-token':
        s = [' ) ', ' ] ', ' @ ', ' # ', ' ` ', ' := := ', ' ,, '][variant % 7]
        return text[:b] + s + text[b:], {'stray': s.strip()}
    if kind == 'type-error':
        if k not in ('id', 'int') or (k == 'id' and not T.is_user_identifier(toks[ti])) or (prev and prev[1] == '.'):
            return None
        if nxt and nxt[1] in ('(', ':'):
            return None
        return text[:a] + '(true[%s])' % tx + text[b:], {}
    if kind == 'side-effect':
        if not T.is_user_identifier(toks[ti]) or (prev and prev[1] == '.') or (nxt and nxt[1] in ('(', '[', '.', "'", '++', '--')):
            return None
        return text[:a] + '(%s++)' % tx + text[b:], {}
    if kind == 'unterminated-comment':
        if '*/' in text[a:]:
            return None  # a later comment end would terminate it: not this fault
        return text[:a] + '/* ' + text[a:], {}
    raise ValueError(kind)


def line_col(text, off):
    """1-based line / 0-based column of a byte offset in block text, counting '\\n'"""
    line = text.count('\n', 0, off) + 1
    col = off - (text.rfind('\n', 0, off) + 1)
    return line, col
