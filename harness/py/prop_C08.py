"""C08: every document a parse leaves behind satisfies the structural invariants clients rely on."""
import copy
import glob
import json
import os
import random
import re

from hypothesis import strategies as st

import common
import faults as F
import gen_model as M
import oracle
import tokenizer as T
import xmlmut
from prop_C04 import NOISE

LEVEL = 'exploration'
RULE = ('documents are produced four ways and each is traversed completely by the predicate of harness/cpp/dump.h '
        '(Dumper::invariants, public members only): (0) a list of degenerate inputs (processes / templates without states, init or name, empty documents, systems without templates); (1) every single structural edit (xmlmut.py) of four seed documents, through '
        'DocumentBuilder alone and through the Document* overload, both syntax switches; (2) generated abstract models '
        '(gen_model.py), clean, as XML and as XTA; (3) the same models after ONE recovery-provoking mutation: duplicate '
        'location/variable/function/template/parameter/select/instance/process names, a location named like a variable, a '
        'variable named like a template, unresolvable or foreign source/target/init references, init on a branchpoint, missing '
        'init, duplicate ids, wrong argument counts, unknown templates/processes, and token-level faults (faults.py) in a random '
        'text block; (4) libFuzzer fork-mode campaigns over fz_xml / fz_xta / fz_part with the predicate inside the target. '
        'Documents left behind by an exception are checked as well (the Document is caller-owned). Predicate: user-data back '
        'pointers of every variable (global, template, function, block), function, location, branchpoint, template, instance, '
        'process; exactly one source and one target per edge, inside the edge\'s own template; nr dense and in order; unbound '
        'parameters first, type arity == unbound, exactly the bound parameters mapped; if the call returned normally without '
        'errors: init among the template\'s own locations. Non-trivial: the document has >= 1 template and >= 1 edge, or the '
        'input produced >= 1 diagnostic or an exception (layer 4: final corpus entries that reached the grammar); distinct = distinct (input text, entry, builder).')


def norm_inv(msg):
    """descriptor of an invariant failure: object class + what fails, names and numbers removed"""
    head = msg.split(' ')[0]
    if head == 'dynamic':
        head = 'dynamic template'
    tail = msg.rsplit(': ', 1)[-1] if ': ' in msg else msg
    tail = re.sub(r'#?\d+', 'N', tail)
    tail = re.sub(r'(location|branchpoint|parameter|edge) [A-Za-z_][A-Za-z_0-9$#]*', r'\1 X', tail)
    return '%s: %s' % (head, tail)


def verdict_of(resp):
    """-> list of (descriptor, what) for every step with a failing invariant (crashes are C01's subject: counted only)"""
    out = []
    for i, s in enumerate(resp.get('steps', [])):
        for msg in ((s.get('inv') or []) + ['after queries: ' + x for x in (s.get('inv_after') or [])])[:1]:
            out.append(({'inv': norm_inv(msg), 'after': 'exception' if s.get('exc') else ('errors' if s.get('n_errors') else 'clean')},
                        'step %d: %s (ret=%r exc=%r errors=%r)' % (i, msg, s.get('ret'), (s.get('exc') or {}).get('class'), s.get('n_errors'))))
    return out


def steps_for(text, entry, newxta=1):
    entry, _, nx = entry.partition('/')
    newxta = int(nx) if nx else newxta
    return [dict(entry=entry, builder='builder-only', newxta=newxta, input=text, dump='inv,shape'),
            dict(entry=entry, builder='document', newxta=newxta, input=text, dump='inv,shape')]


def account(chk, stats, resp, text, entry, classes, sample):
    """record the steps of one request; returns first new violation (descriptor, what, case) or None"""
    if 'crash' in resp:
        stats.extra['crashes_seen_(C01)'] += 1
        return None
    found = None
    for s, b in zip(resp['steps'], ('builder-only', 'document')):
        sh = s.get('shape') or {}
        diag = bool(s.get('n_errors') or s.get('n_warnings') or s.get('exc'))
        nt = (sh.get('templates', 0) >= 1 and sh.get('edges', 0) >= 1) or diag
        cls = list(classes) + ['builder:' + b, 'after:' + ('exception' if s.get('exc') else 'errors' if s.get('n_errors') else 'clean')]
        stats.case('%s|%s|%s' % (text, entry, b), nontrivial=nt, classes=cls, sample=sample)
    for d, what in verdict_of(resp):
        case = {'kind': 'request', 'steps': steps_for(text, entry)}
        if chk.is_known(d):
            chk.report(stats, d, what, case)
        elif found is None:
            found = (d, what, case)
    return found


# ---------------------------------------------------------------- layer 1: single structural edits of seed documents
SEEDS = [('rich_ta.xml', (1, 0)), ('project.xml', (1,)), ('old_syntax.xml', (0,)), ('lsc.xml', (1,))]


def enum_worker(chk, wi, nw):
    stats = common.Stats()
    orc = oracle.Oracle(os.path.join(chk.workdir, 'e%d' % wi), cpu_limit=20)
    k = 0
    for fn, switches in SEEDS:
        text = open(os.path.join(common.VERIF, 'corpus', 'seeds', fn)).read()
        for label, mut in xmlmut.mutations(text):
            for nx in switches:
                k += 1
                if k % nw != wi:
                    continue
                resp = orc.request([dict(entry='xml-buffer', builder='builder-only', newxta=nx, input=mut, dump='inv,shape'),
                                    dict(entry='xml-buffer', builder='document', newxta=nx, input=mut, dump='inv,shape')])
                v = account(chk, stats, resp, mut, 'xml-buffer/%d' % nx, ['enum:' + label.split(' ')[0].split('@')[0], 'seed:' + fn],
                            {'seed': fn, 'edit': label, 'newxta': nx})
                if v:
                    stats.violations.append({'descriptor': v[0], 'what': '%s / %s: %s' % (fn, label, v[1]), 'case': v[2]})
    orc.close()
    return stats


# ---------------------------------------------------------------- layer 3: recovery-provoking mutations of generated models
def _ids(xml):
    return re.findall(r'<location id="([^"]+)"', xml), re.findall(r'<branchpoint id="([^"]+)"', xml)


MUTATIONS = ['none', 'dup-loc-name', 'loc-named-as-var', 'dup-global', 'dup-local', 'dup-template', 'dup-func', 'var-named-as-template',
             'bad-src', 'bad-dst', 'bad-init', 'no-init', 'init-on-branchpoint', 'foreign-target', 'dup-id', 'dup-bp-id', 'inst-argcount',
             'inst-unknown-template', 'dup-inst', 'inst-named-as-template', 'system-unknown', 'system-dup', 'system-variable',
             'dup-param', 'bad-param', 'dup-select', 'two-inits', 'loc-named-as-branchpoint', 'dup-bp-name', 'bp-named-as-variable', 'token-fault', 'token-fault', 'token-fault', 'token-fault']


def mutate(m, mut, rnd):
    """-> (xml, xta or None, applied) ; mutates the abstract model and/or the rendered text"""
    def pick(lst):
        return lst[rnd.randrange(len(lst))] if lst else None
    t = pick(m.templates)
    gvars = [v[0] for d in m.gdecls for v in d.vars]
    gfuncs = [f[0] for d in m.gdecls for f in d.funcs]
    applied = mut
    post = None   # text-level edit applied to the XML
    if mut == 'dup-loc-name' and t and len(t.locs) >= 2:
        a, b = rnd.sample(t.locs, 2)
        b.name = a.dname
    elif mut == 'loc-named-as-var':
        names = [v[0] for d in t.decls for v in d.vars] + gvars
        if names:
            pick(t.locs).name = pick(names)
        else:
            applied = 'none'
    elif mut == 'dup-global' and gvars:
        m.gdecls.insert(rnd.randrange(len(m.gdecls) + 1), M.Decl('%s %s;' % (pick(['clock', 'bool', 'int[0,1]', 'chan']), pick(gvars))))
    elif mut == 'dup-local' and t and (t.decls or gvars):
        names = [v[0] for d in t.decls for v in d.vars] or gvars
        t.decls.append(M.Decl('%s %s;' % (pick(['clock', 'bool', 'int[0,1]']), pick(names))))
    elif mut == 'dup-template':
        if len(m.templates) >= 2:
            a, b = rnd.sample(m.templates, 2)
            b.name = a.name
        else:
            c = copy.copy(t)
            m.templates.append(c)
    elif mut == 'dup-func' and gfuncs:
        f = pick(gfuncs)
        m.gdecls.append(M.Decl('int %s(int zz) { return zz; }' % f))
    elif mut == 'var-named-as-template' and t:
        m.gdecls.insert(rnd.randrange(len(m.gdecls) + 1), M.Decl('int %s;' % t.name))
    elif mut in ('bad-src', 'bad-dst', 'foreign-target') and t and t.edges:
        e = pick(t.edges)
        if mut == 'foreign-target':
            others = [l for u in m.templates if u is not t for l in u.locs]
            if others:
                o = pick(others)
                e.dst = ('L', o.dname, o.id)
            else:
                e.dst = ('L', 'nosuch', 'nosuchid')
        elif mut == 'bad-src':
            e.src = ('L', 'nosuch', 'nosuchid')
        else:
            e.dst = ('L', 'nosuch', 'nosuchid')
    elif mut == 'bad-init' and t:
        t.init = M.Loc('nosuchid', 'nosuch')
    elif mut == 'init-on-branchpoint' and t and t.bps:
        b = pick(t.bps)
        t.init = M.Loc(b[0], b[1])
    elif mut == 'no-init':
        post = lambda x: re.sub(r'[ \t]*<init ref="[^"]*"/>\n?', '', x, count=1 + rnd.randrange(2))
    elif mut == 'two-inits' and t and len(t.locs) >= 2:
        other = pick([l for l in t.locs if l is not t.init])
        post = lambda x: x.replace('<init ref="%s"/>' % t.init.id, '<init ref="%s"/><init ref="%s"/>' % (t.init.id, other.id), 1)
    elif mut == 'dup-id' and t and len(t.locs) >= 2:
        a, b = rnd.sample(t.locs, 2)
        post = lambda x: x.replace('<location id="%s"' % b.id, '<location id="%s"' % a.id, 1)
    elif mut == 'dup-bp-id' and t and t.bps:
        b = pick(t.bps)
        a = pick(t.locs)
        post = lambda x: x.replace('<branchpoint id="%s"' % b[0], '<branchpoint id="%s"' % a.id, 1)
    elif mut == 'loc-named-as-branchpoint' and t and t.bps:
        pick(t.locs).name = pick(t.bps)[1]
    elif mut == 'dup-bp-name' and t and len(t.bps) >= 2:
        t.bps[1] = (t.bps[1][0], t.bps[0][1])          # visible in the XTA rendering (XML derives the name from the id)
        post = lambda x: x.replace('<branchpoint id="%s"' % t.bps[1][0], '<branchpoint id="%s"' % t.bps[0][0], 1)
    elif mut == 'bp-named-as-variable' and t and t.bps:
        names = [v[0] for d in t.decls for v in d.vars]
        if names:
            t.bps[0] = (t.bps[0][0], pick(names))
        else:
            applied = 'none'
    elif mut == 'inst-argcount' and m.insts:
        i = pick(m.insts)
        i[3] = list(i[3])[:-1] if (i[3] and rnd.random() < 0.5) else list(i[3]) + [('int', 1)]
    elif mut == 'inst-unknown-template' and m.insts:
        pick(m.insts)[2] = 'NoSuchTemplate'
    elif mut == 'dup-inst' and len(m.insts) >= 2:
        a, b = rnd.sample(m.insts, 2)
        old = b[0]
        b[0] = a[0]
        m.system = [[a[0] if n == old else n for n in g] for g in m.system]
    elif mut == 'inst-named-as-template' and m.insts and t:
        i = pick(m.insts)
        old = i[0]
        i[0] = t.name
        m.system = [[t.name if n == old else n for n in g] for g in m.system]
    elif mut == 'system-unknown':
        m.system = (m.system or [[]])
        m.system[-1] = m.system[-1] + ['NoSuchProcess']
    elif mut == 'system-dup' and m.system and m.system[0]:
        m.system = m.system + [[m.system[0][0]]] if rnd.random() < 0.5 else [m.system[0] + [m.system[0][0]]] + m.system[1:]
    elif mut == 'system-variable' and gvars:
        m.system = (m.system or [[]])
        m.system[0] = m.system[0] + [pick(gvars)]
    elif mut == 'dup-param' and t and t.params:
        p = pick(t.params)
        t.params.append((p[0], 'bool ' + p[0], False, M.TS_BOOL, 'bool'))
    elif mut == 'bad-param' and t:
        t.params.append(('zz', pick(['int', 'int zz,', 'int zz[', 'nosuchtype zz', 'int &', ', int zz']), False, M.TS_INT, 'int'))
    elif mut == 'dup-select' and t and t.edges:
        e = pick(t.edges)
        if e.select:
            s = e.select[0]
            e.select.append((s[0], 'int[0,1]', s[2]))
        else:
            e.select = [('zs', 'int[0,1]', M.TS_INT), ('zs', 'int[0,2]', M.TS_INT)]
    elif mut not in ('none', 'token-fault'):
        applied = 'none'
    xml = m.xml()
    if post:
        x2 = post(xml)
        if x2 == xml:
            applied = 'none'
        xml = x2
    xta = None
    if all(l.name for u in m.templates for l in u.locs) and (post is None or mut == 'dup-bp-name'):
        try:
            xta = m.xta()
        except Exception:
            xta = None
    if mut == 'token-fault':
        doc = F.Doc(xml)
        if doc.blocks:
            b = pick(doc.blocks)
            text = doc.text_of(b)
            n = len(T.tokens(text))
            done = False
            for _ in range(6):
                fk = pick(F.FAULT_KINDS)
                res = F.apply_fault(text, fk, rnd.randrange(max(1, n)), variant=rnd.randrange(100)) if n else None
                if res:
                    xml = doc.serialize({b['path']: res[0]})
                    applied = 'token-fault:%s:%s' % (b['kind'], fk)
                    done = True
                    break
            if not done:
                applied = 'none'
            xta = None
        else:
            applied = 'none'
    return xml, xta, applied


def member_queries(m):
    """queries that reach into every listed process: P.v, and T(0, ..).v for process sets with free parameters (typed against the built document)"""
    qs = []
    for n in [x for grp in m.system for x in grp]:
        info = m.done.get(n)
        if info is None:       # a mutation put a name into the system line that denotes nothing
            continue
        p = n + ('(%s)' % ', '.join(['0'] * info['unbound']) if info['unbound'] else '')
        ts = [t for t in m.templates if t.name == info['template']]
        if not ts:             # a mutation renamed the template
            continue
        t = ts[0]
        for d in t.decls:
            for v in d.vars:
                qs.append('E<> %s.%s == %s.%s' % (p, v[0], p, v[0]))
        for l in t.locs:
            if l.name:
                qs.append('E<> %s.%s' % (p, l.name))
    return qs[:12]


def gen_worker(chk, wi, nw):
    stats = common.Stats()
    orc = oracle.Oracle(os.path.join(chk.workdir, 'g%d' % wi), cpu_limit=30)

    def test(args):
        m, mut, seed = args
        rnd = random.Random(seed)
        xml, xta, applied = mutate(m, mut, rnd)
        cls = ['mutation:' + applied.split(':')[0]] + (['fault:' + applied.split(':', 1)[1]] if ':' in applied else [])
        sample = {'mutation': applied, 'xml_prefix': xml[:500]}
        v = account(chk, stats, orc.request(steps_for(xml, 'xml-buffer')), xml, 'xml-buffer', cls + ['entry:xml'], sample)
        if v:
            return v
        qs = member_queries(m) if applied == 'none' or rnd.random() < 0.3 else []
        if qs:
            from xml.sax.saxutils import escape
            measures = [q[4:].split(' == ')[0] for q in qs if ' == ' in q][:3]
            xml_p = xml.replace('</system>', escape('\nprogress { %s }\n' % ' '.join(x + ';' for x in measures)) + '</system>', 1) if measures else xml
            st3 = [dict(entry='xml-buffer', builder='document', newxta=1, input=xml, dump='inv,shape,inv_after', actions='queries', queries='\n'.join(qs)),
                   dict(entry='xml-buffer', builder='document', newxta=1, input=xml_p, dump='inv,shape'),
                   dict(entry='xml-buffer', builder='builder-only', newxta=1, input=xml_p, dump='inv,shape')]
            r3 = orc.request(st3)
            if 'crash' in r3:
                stats.extra['crashes_seen_(C01)'] += 1
            else:
                stats.case('%s|queries' % xml, nontrivial=True, classes=cls + ['entry:xml', 'after-member-queries'] + (['process-set-member'] if any('(' in q for q in qs) else []),
                           sample={'mutation': applied, 'queries': qs[:4]})
                for vv in verdict_of(r3):
                    if not chk.is_known(vv[0]):
                        return (vv[0], vv[1], {'steps': st3})
        if xta is not None:
            v = account(chk, stats, orc.request(steps_for(xta, 'xta-buffer')), xta, 'xta-buffer', cls + ['entry:xta'],
                        {'mutation': applied, 'xta_prefix': xta[:500]})
            if v:
                return v
        return None

    n = 260 if chk.tier == 'quick' else 6000
    strat = st.tuples(M.models(for_xta=False), st.sampled_from(MUTATIONS), st.integers(0, 10 ** 6))
    common.run_hypothesis(chk, stats, strat, test, n, chk.seed * 1000 + wi)
    strat2 = st.tuples(M.models(for_xta=True), st.sampled_from(MUTATIONS), st.integers(0, 10 ** 6))
    common.run_hypothesis(chk, stats, strat2, test, n // 2, chk.seed * 1000 + 500 + wi)
    orc.close()
    return stats


DEGENERATE = [
    ('xta-buffer', 'process T() { }\nsystem T;\n'), ('xta-buffer', 'process T() { }\n'), ('xta-buffer', 'process T(int p, const int q) { }\nA = T(1, 2);\nsystem A;\n'),
    ('xta-buffer', 'int x;\nprocess T() { }\nprocess U() { state s; init s; }\nsystem T, U;\n'), ('xta-buffer', 'process T() { state s; init s; }\n'),
    ('xta-buffer', 'system T;\n'), ('xta-buffer', ''), ('xta-buffer', 'process T() { state s; init s; trans s -> s { }; }\nsystem T, T;\n'),
    ('xml-buffer', '<nta><declaration></declaration><template><name>T</name></template><system>system T;</system></nta>'),
    ('xml-buffer', '<nta><declaration></declaration><template><name>T</name><location id="a"/></template><system>system T;</system></nta>'),
    ('xml-buffer', '<nta><declaration></declaration><template><name>T</name><init ref="a"/></template><system>system T;</system></nta>'),
    ('xml-buffer', '<nta><template><name>T</name><location id="a"/><init ref="a"/></template><system>system T;</system></nta>'),
    ('xml-buffer', '<nta><declaration></declaration><template><name>T</name><location id="a"/><init ref="a"/></template></nta>'),
    ('xml-buffer', '<nta><declaration></declaration><system>system T;</system></nta>'), ('xml-buffer', '<nta></nta>'), ('xml-buffer', '<nta/>'),
    ('xml-buffer', '<nta><declaration></declaration><template><name>T</name><branchpoint id="b"/><init ref="b"/></template><system>system T;</system></nta>'),
]


def degenerate_worker(chk, wi, nw):
    """templates without states / init / name, empty documents, systems without templates - through both builders"""
    stats = common.Stats()
    orc = oracle.Oracle(os.path.join(chk.workdir, 'd%d' % wi), cpu_limit=20)
    for k, (entry, text) in enumerate(DEGENERATE):
        if k % nw != wi:
            continue
        v = account(chk, stats, orc.request(steps_for(text, entry)), text, entry, ['degenerate', 'entry:' + entry.split('-')[0]], {'degenerate': text[:200]})
        if v:
            stats.violations.append({'descriptor': v[0], 'what': v[1], 'case': v[2]})
    orc.close()
    return stats


def confirm(case):
    if case.get('kind') == 'fuzz':
        import c01_fuzz
        return c01_fuzz.confirm_fuzz(case)
    orc = oracle.Oracle(os.path.join(common.WORK, 'C08', 'confirm'), cpu_limit=30)
    try:
        resp = orc.request(case['steps'])
    finally:
        orc.close()
    if 'crash' in resp:
        return None
    v = verdict_of(resp)
    return v[0] if v else None


def run_replays(chk):
    for p in sorted(glob.glob(os.path.join(common.VERIF, 'replays', 'C08', '*.json'))):
        rec = json.load(open(p))
        case = rec.get('case', rec)
        chk.stats.case('replay:' + os.path.basename(p), True, ['replay'])
        r = confirm(case)
        if r:
            chk.report(chk.stats, r[0], 'replay %s: %s' % (os.path.basename(p), r[1]), case)


def run(chk):
    chk.build('oracle')
    chk.rule = RULE
    chk.assumptions = ['the predicate reads public members only; a crash while building a document is C01\'s subject and only counted here',
                       '"returned normally and reported no errors" is evaluated per call: return value 0 (XML) / true (XTA Document* overload) and an empty error list',
                       'LSC templates (is_TA == false) are exempt from the initial-location clause, as in the statement']
    layers = os.environ.get('C08_LAYERS', 'replay,enum,gen,fuzz').split(',')
    if 'replay' in layers:
        run_replays(chk)
    if 'enum' in layers:
        chk.run_workers(degenerate_worker)
        chk.run_workers(enum_worker)
    if 'gen' in layers:
        chk.run_workers(gen_worker)
    if 'fuzz' in layers:
        import c01_fuzz
        chk.build('fuzz')
        quick = chk.tier == 'quick'
        for target, runs in (('fz_xml', 40000 if quick else 1200000), ('fz_xta', 40000 if quick else 1200000), ('fz_part', 30000 if quick else 800000)):
            c01_fuzz.campaign(chk, target, runs, 4096 if quick else 32768, oracles='c08', seed=chk.seed + 1, prop='C08')
    chk.explanation = 'layer 1 is exhaustive for its (seed x edit x switch x builder) space; the other layers are sampled'
    return chk.finish(confirm=confirm)


def replay(chk, path):
    chk.build('oracle')
    rec = json.load(open(path))
    case = rec.get('case', rec)
    if case.get('kind') == 'fuzz':
        chk.build('fuzz')
    r = confirm(case)
    if r:
        print('  ' + str(r[1])[:1500])
        print('VIOLATION property=C08 replay=%s' % path)
        return 1
    print('replay: no violation')
    return 0
