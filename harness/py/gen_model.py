"""Abstract UPPAAL models: Hypothesis generator, XML/XTA renderers and the expected (reference) document projection.

The generator IS the reference of C04: every model element is created here together with what the document must contain.
Names are unique across scopes (no shadowing; that is C07's subject) and never collide with keywords.
"""
import re
from xml.sax.saxutils import escape

from hypothesis import strategies as st

import gen_expr as G

INTMIN, INTMAX = '(CONSTANT -32768)', '(CONSTANT 32767)'

# ------------------------------------------------------------------ unusual but valid identifiers
# the lexer (alpha [a-zA-Z_], idchr [a-zA-Z0-9_$#]) and the XML reader's symbol() define an identifier; anything of that shape that is not a
# keyword may name a variable, type, function, parameter, template, location or process.
NAMES_ANY = ['_', '__', '_1', '_a', '_idle', '_Worker', '_x_', 'a_', 'a1_2', 'a$', 'b#1', 'c$#', 'Int', 'Clock', 'INIT', 'System', 'True', 'Process',
             'aA', 'Z9', 'l', 'O0', 'x1y2z3_a_rather_long_identifier_with_many_characters_0123456789']
NAMES_VARIABLE_ONLY = ['A', 'U', 'W', 'R', 'E', 'M', 'sup', 'inf', 'bounds', 'simulation']   # soft keywords: valid as variable names
VARIABLE_PREFIXES = set('vKrbxdasc')


def harvested_names():
    """identifier-shaped string literals that the sources of the tree under test compare something with (name == "Err"): a model may use them as names"""
    import glob
    import os
    src = os.environ.get('UTAP_SRC', '/repo')
    try:
        kw = set(re.findall(r'\{"([A-Za-z_0-9]+)"', open(src + '/src/keywords.cpp').read()))
    except OSError:
        return []
    words = set()
    for f in sorted(glob.glob(src + '/src/*.cpp') + glob.glob(src + '/src/*.h*') + glob.glob(src + '/include/utap/*.h')):
        text = open(f, errors='replace').read()
        for mo in re.finditer(r'(?:==|!=)\s*"([A-Za-z_][A-Za-z0-9_]*)"|"([A-Za-z_][A-Za-z0-9_]*)"\s*(?:==|!=)|str(?:n)?cmp\([^;]*?"([A-Za-z_][A-Za-z0-9_]*)"', text):
            words.add(mo.group(1) or mo.group(2) or mo.group(3))
    return sorted(w for w in words - kw if len(w) > 1 and not re.fullmatch(r'_id\d+', w))


NAMES_HARVESTED = harvested_names()


# ------------------------------------------------------------------ abstract types -> expected type summary
def T_int():
    return ('int', INTMIN, INTMAX)


def tsum_text(ts):
    return repr(ts)


class Env:
    """names visible at some point: name -> (symbol id, abstract kind, extra)"""

    def __init__(self, parent=None):
        self.parent = parent
        self.names = {}

    def add(self, name, sid, kind, extra=None):
        self.names[name] = (sid, kind, extra)

    def all(self):
        d = dict(self.parent.all()) if self.parent else {}
        d.update(self.names)
        return d

    def of_kind(self, *kinds):
        return sorted(n for n, (sid, k, e) in self.all().items() if k in kinds)

    def idmap(self):
        return {n: v[0] for n, v in self.all().items()}


def canon(t, env):
    c = G.Canon('g')
    ids = env.idmap()
    c.ident = lambda name, _c=c: next(('(IDENTIFIER @%s)' % sid for nm, sid in reversed(_c.stack) if nm == name), None) or \
        '(IDENTIFIER @%s)' % ids.get(name, 'g/' + name)
    return c.c(t)


R = lambda t: G.render(t, 'min')
ID = lambda n: ('id', n)


# ------------------------------------------------------------------ expression drawing in an environment
def d_int(draw, env, depth=2, allow_select=True):
    ints = env.of_kind('int', 'cint', 'rint', 'pint', 'sel')
    opts = ['lit']
    if ints:
        opts += ['var', 'var']
    if depth > 0:
        opts += ['bin', 'bin', 'iif', 'neg']
        if env.of_kind('arr'):
            opts.append('idx')
        if env.of_kind('fun1'):
            opts.append('call')
        if env.of_kind('struct'):
            opts.append('dot')
    k = draw(st.sampled_from(opts))
    if k == 'lit':
        return ('int', draw(st.sampled_from([0, 1, 2, 3, 5, 10])))
    if k == 'var':
        return ID(draw(st.sampled_from(ints)))
    if k == 'bin':
        return ('bin', draw(st.sampled_from(['+', '-', '*', '%', '<?', '>?', '&', '|'])), d_int(draw, env, depth - 1), d_int(draw, env, depth - 1))
    if k == 'neg':
        return ('un', '-', d_int(draw, env, depth - 1))
    if k == 'iif':
        return ('iif', d_bool(draw, env, depth - 1, clocks=False), d_int(draw, env, depth - 1), d_int(draw, env, depth - 1))
    if k == 'idx':
        return ('idx', ID(draw(st.sampled_from(env.of_kind('arr')))), d_int(draw, env, depth - 1))
    if k == 'call':
        return ('call', draw(st.sampled_from(env.of_kind('fun1'))), [d_int(draw, env, depth - 1)])
    if k == 'dot':
        return ('dot', ID(draw(st.sampled_from(env.of_kind('struct')))), draw(st.sampled_from(['f', 'g'])))
    raise AssertionError(k)


def d_bool(draw, env, depth=2, clocks=False):
    opts = ['rel', 'rel', 'lit']
    if env.of_kind('bool', 'pbool'):
        opts += ['var', 'var']
    if depth > 0:
        opts += ['and', 'or', 'not', 'quant']
    k = draw(st.sampled_from(opts))
    if k == 'lit':
        return ('bool', draw(st.sampled_from([0, 1])))
    if k == 'var':
        return ID(draw(st.sampled_from(env.of_kind('bool', 'pbool'))))
    if k == 'rel':
        return ('bin', draw(st.sampled_from(['<', '<=', '==', '!=', '>=', '>'])), d_int(draw, env, depth - 1), d_int(draw, env, depth - 1))
    if k == 'and':
        return ('bin', draw(st.sampled_from(['&&', 'and'])), d_bool(draw, env, depth - 1), d_bool(draw, env, depth - 1))
    if k == 'or':
        return ('bin', draw(st.sampled_from(['||', 'or', 'imply'])), d_bool(draw, env, depth - 1), d_bool(draw, env, depth - 1))
    if k == 'not':
        return ('un', draw(st.sampled_from(['!', 'not'])), d_bool(draw, env, depth - 1))
    if k == 'quant':
        b = draw(st.sampled_from(['qi', 'qj']))
        return ('q', draw(st.sampled_from(['forall', 'exists'])), b, 'int[0,2]',
                ('bin', '||', ('bin', '<=', ID(b), d_int(draw, env, 0)), d_bool(draw, env, depth - 1)))
    raise AssertionError(k)


def d_clockcond(draw, env, upper_only=False):
    """conjunction of clock bounds (and optionally an integer predicate)"""
    clocks = env.of_kind('clock')
    parts = []
    n = draw(st.integers(1, 2))
    for _ in range(n):
        if clocks and draw(st.booleans()):
            rel = draw(st.sampled_from(['<', '<='] if upper_only else ['<', '<=', '>=', '>', '==']))
            parts.append(('bin', rel, ID(draw(st.sampled_from(clocks))), d_int(draw, env, 0)))
        else:
            parts.append(d_bool(draw, env, 1))
    e = parts[0]
    for p in parts[1:]:
        e = ('bin', '&&', e, p)
    return e


# ------------------------------------------------------------------ model classes
class Decl:
    """one declaration statement: text + what it adds to the document"""

    def __init__(self, text, vars=(), funcs=(), typedefs=()):
        self.text = text
        self.vars = list(vars)      # (name, tsum, init_canon)
        self.funcs = list(funcs)    # (name, nparams, body_canon or None)
        self.typedefs = list(typedefs)


class Loc:
    def __init__(self, lid, name, inv=None, rate=None, urgent=False, committed=False):
        self.id, self.name, self.inv, self.rate, self.urgent, self.committed = lid, name, inv, rate, urgent, committed

    @property
    def dname(self):
        return self.name if self.name else '_' + self.id


class Edge:
    def __init__(self):
        self.src = self.dst = None          # ('L'|'B', name, id)
        self.control = None                 # None (absent) | True | False
        self.select = []                    # (name, typetext, tsum)
        self.guard = self.sync = self.update = self.prob = None   # trees; sync = (tree, '!'|'?'); update = list of trees


class Template:
    def __init__(self, name):
        self.name = name
        self.params = []     # (name, typetext, byref, tsum, kind)
        self.decls = []
        self.locs = []
        self.bps = []        # (id, dname)
        self.init = None
        self.edges = []
        self.env = None


class Model:
    def __init__(self):
        self.gdecls = []
        self.templates = []
        self.insts = []      # (name, [(pname, typetext, tsum)], target, [arg trees], expected dict)
        self.system = []     # list of groups (lists of names); groups separated by '<'
        self.genv = Env()
        self.queries = []
        self.noise = {}
        self.special_names = []   # unusual identifiers the generator used (evidence class)

    # ---------------------------------------------------------------- XML
    def xml(self, noise=None):
        nz = dict(self.noise)
        nz.update(noise or {})
        xl = [nz.get('extra_labels', 0)]

        def sprinkle(labs, ind3):
            """labels that do not go to the grammar (comments, test code, empty ones) before, between and after the ones that do"""
            if not xl[0]:
                return labs
            extra = ['<label kind="comments">a comment &amp; more</label>', '<label kind="testcodeEnter">enter(1);</label>', '<label kind="testcodeExit">leave();</label>',
                     '<label kind="comments" x="3" y="4"></label>', '<label kind="comments">/* not closed</label>']
            res = []
            for k in range(len(labs) + 1):
                xl[0] = (xl[0] * 1103515245 + 12345) % (1 << 31)
                if (xl[0] >> 8) % 2 == 0:
                    res.append(ind3 + extra[(xl[0] >> 12) % len(extra)])
                if k < len(labs):
                    res.append(labs[k])
            return res
        nl = nz.get('nl', '\n')
        ind = nz.get('indent', '\t')
        out = ['<?xml version="1.0" encoding="utf-8"?>']
        if nz.get('doctype', True):
            out.append("<!DOCTYPE nta PUBLIC '-//Uppaal Team//DTD Flat System 1.6//EN' 'http://www.it.uu.se/research/group/darts/uppaal/flat-1_6.dtd'>")
        out.append('<nta>')

        nw = [nz.get('name_ws', 0)]

        def nm(name):
            """a <name> is an identifier with optional white space around it"""
            if not nw[0]:
                return name
            nw[0] = (nw[0] * 1103515245 + 12345) % (1 << 31)
            pads = ['', ' ', '\n', '\n\t\t', '  ', '\t', '\n      ']
            return pads[(nw[0] >> 8) % len(pads)] + name + pads[(nw[0] >> 14) % len(pads)]
        sp = [nz.get('split', 0)]

        def block(text):
            if sp[0] and ']]>' not in text and '--' not in text:
                # the same character data spelled in pieces: XML comments before, inside and after it, CDATA sections for parts of it
                sp[0] = (sp[0] * 1103515245 + 12345) % (1 << 31)
                v = (sp[0] >> 8) % 8
                cut = text.find(' ', len(text) // 3)
                if cut < 0:
                    cut = len(text)
                a_, b_ = text[:cut], text[cut:]
                if v == 0:
                    return escape(a_) + '<!-- c -->' + escape(b_)
                if v == 1:
                    return '<!-- leading -->' + escape(text)
                if v == 2:
                    return escape(text) + '<!-- trailing\n comment -->'
                if v == 3:
                    return escape(a_) + '<![CDATA[' + b_ + ']]>'
                if v == 4:
                    return '<![CDATA[' + a_ + ']]>' + escape(b_)
                if v == 5:
                    return '<![CDATA[' + a_ + ']]><![CDATA[' + b_ + ']]>'
            if nz.get('cdata') and ']]>' not in text:
                return '<![CDATA[' + text + ']]>'
            return escape(text)
        out.append(ind + '<declaration>' + block(nl.join(d.text for d in self.gdecls)) + '</declaration>')
        for t in self.templates:
            out.append(ind + '<template>')
            out.append(ind * 2 + '<name x="5" y="5">%s</name>' % nm(t.name))
            if t.params or nz.get('empty_param'):
                out.append(ind * 2 + '<parameter>' + block(', '.join(p[1] for p in t.params)) + '</parameter>')
            if t.decls or nz.get('empty_decl', True):
                out.append(ind * 2 + '<declaration>' + block(nl.join(d.text for d in t.decls)) + '</declaration>')
            for l in t.locs:
                attrs = 'id="%s" x="%d" y="%d"' % (l.id, 10, 20) if not nz.get('attr_swap') else 'x="%d" y="%d" id="%s"' % (10, 20, l.id)
                out.append(ind * 2 + '<location %s>' % attrs)
                if l.name:
                    out.append(ind * 3 + '<name x="1" y="2">%s</name>' % nm(l.name))
                labs = []
                if l.inv is not None:
                    labs.append(ind * 3 + '<label kind="invariant" x="1" y="2">' + block(R(l.inv)) + '</label>')
                if l.rate is not None:
                    labs.append(ind * 3 + '<label kind="exponentialrate">' + block(R(l.rate)) + '</label>')
                if nz.get('rate_first'):
                    labs.reverse()      # the reader takes the labels of a location in any order
                out += sprinkle(labs, ind * 3)
                if nz.get('comments'):
                    out.append(ind * 3 + '<label kind="comments">a comment &amp; more</label>')
                if l.urgent:
                    out.append(ind * 3 + '<urgent/>')
                if l.committed:
                    out.append(ind * 3 + '<committed/>')
                out.append(ind * 2 + '</location>')
            for bid, bname in t.bps:
                out.append(ind * 2 + '<branchpoint id="%s" x="3" y="4"/>' % bid)
            out.append(ind * 2 + '<init ref="%s"/>' % t.init.id)
            for e in t.edges:
                a = ''
                if e.control is not None:
                    a = ' controllable="%s"' % ('true' if e.control else 'false')
                out.append(ind * 2 + '<transition%s>' % a)
                out.append(ind * 3 + '<source ref="%s"/>' % e.src[2])
                out.append(ind * 3 + '<target ref="%s"/>' % e.dst[2])
                labs = []
                if e.select:
                    labs.append(ind * 3 + '<label kind="select" x="0" y="0">' + block(', '.join('%s : %s' % (s[0], s[1]) for s in e.select)) + '</label>')
                if e.guard is not None:
                    labs.append(ind * 3 + '<label kind="guard">' + block(R(e.guard)) + '</label>')
                if e.sync is not None:
                    labs.append(ind * 3 + '<label kind="synchronisation">' + block(R(e.sync[0]) + e.sync[1]) + '</label>')
                if e.update is not None:
                    labs.append(ind * 3 + '<label kind="assignment">' + block(', '.join(R(u) for u in e.update)) + '</label>')
                if e.prob is not None:
                    labs.append(ind * 3 + '<label kind="probability">' + block(R(e.prob)) + '</label>')
                if nz.get('edge_label_order'):
                    # the DTD does not order the labels of a transition; the select label need not come first
                    eo = (nz['edge_label_order'] * 2654435761 + len(out)) % (1 << 31)
                    for k_ in range(len(labs) - 1, 0, -1):
                        eo = (eo * 1103515245 + 12345) % (1 << 31)
                        j_ = (eo >> 8) % (k_ + 1)
                        labs[k_], labs[j_] = labs[j_], labs[k_]
                out += sprinkle(labs, ind * 3)
                if nz.get('nails'):
                    out.append(ind * 3 + '<nail x="1" y="1"/>')
                out.append(ind * 2 + '</transition>')
            out.append(ind + '</template>')
        if self.insts and nz.get('inst_in_system', False) is False:
            out.append(ind + '<instantiation>' + block(nl.join(self.inst_text(i) for i in self.insts)) + '</instantiation>')
            out.append(ind + '<system>' + block(self.system_text()) + '</system>')
        else:
            out.append(ind + '<system>' + block(nl.join([self.inst_text(i) for i in self.insts] + [self.system_text()])) + '</system>')
        if self.queries:
            out.append(ind + '<queries>')
            for q in self.queries:
                out.append(ind * 2 + '<query><formula>%s</formula><comment>c</comment></query>' % escape(q))
            out.append(ind + '</queries>')
        out.append('</nta>')
        sep = '\n' if nz.get('ws', True) else ''
        return sep.join(out) + '\n'

    def inst_text(self, i):
        name, params, target, args, _ = i
        p = '(%s)' % ', '.join(x[1] for x in params) if params else ''
        return '%s%s = %s(%s);' % (name, p, target, ', '.join(R(a) for a in args))

    def system_text(self):
        return 'system ' + ' < '.join(', '.join(g) for g in self.system) + ';'

    # ---------------------------------------------------------------- XTA
    def xta(self):
        out = [d.text for d in self.gdecls]
        for t in self.templates:
            out.append('process %s(%s) {' % (t.name, ', '.join(p[1] for p in t.params)))
            out += [d.text for d in t.decls]
            locs = []
            for l in t.locs:
                s = l.dname
                if l.inv is not None or l.rate is not None:
                    s += ' { %s%s }' % (R(l.inv) if l.inv is not None else '', (' ; ' + R(l.rate)) if l.rate is not None else '')
                locs.append(s)
            out.append('state ' + ', '.join(locs) + ';')
            if t.bps:
                out.append('branchpoint ' + ', '.join(b[1] for b in t.bps) + ';')
            cm = [l.dname for l in t.locs if l.committed]
            ur = [l.dname for l in t.locs if l.urgent]
            if cm:
                out.append('commit ' + ', '.join(cm) + ';')
            if ur:
                out.append('urgent ' + ', '.join(ur) + ';')
            out.append('init %s;' % t.init.dname)
            if t.edges:
                es = []
                for e in t.edges:
                    arrow = '-u->' if e.control is False else '->'
                    body = ''
                    if e.select:
                        body += ' select ' + ', '.join('%s : %s' % (s[0], s[1]) for s in e.select) + ';'
                    if e.guard is not None:
                        body += ' guard ' + R(e.guard) + ';'
                    if e.sync is not None:
                        body += ' sync ' + R(e.sync[0]) + e.sync[1] + ';'
                    if e.update is not None:
                        body += ' assign ' + ', '.join(R(u) for u in e.update) + ';'
                    if e.prob is not None:
                        body += ' probability ' + R(e.prob) + ';'
                    es.append('%s %s %s {%s }' % (e.src[1], arrow, e.dst[1], body))
                out.append('trans ' + ',\n  '.join(es) + ';')
            out.append('}')
        out += [self.inst_text(i) for i in self.insts]
        out.append(self.system_text())
        return '\n'.join(out) + '\n'

    # ---------------------------------------------------------------- expected projection
    def expected(self):
        exp = {'globals': self._exp_decls(self.gdecls), 'templates': [], 'processes': [], 'instances': []}
        for t in self.templates:
            te = {'name': t.name, 'params': [(p[0], p[3]) for p in t.params], 'decls': self._exp_decls(t.decls),
                  'locations': [], 'branchpoints': [b[1] for b in t.bps], 'init': t.init.dname, 'edges': []}
            for l in t.locs:
                te['locations'].append({'name': l.dname, 'invariant': canon(l.inv, t.env) if l.inv is not None else '()',
                                        'exp_rate': canon(l.rate, t.env) if l.rate is not None else '()',
                                        'urgent': l.urgent, 'committed': l.committed})
            for k, e in enumerate(t.edges):
                eenv = Env(t.env)
                for (sn, stx, sts) in e.select:
                    eenv.add(sn, 'T(%s).E%d.sel/%s' % (t.name, k, sn), 'sel')
                te['edges'].append({
                    'src': e.src[0] + ':' + e.src[1], 'dst': e.dst[0] + ':' + e.dst[1],
                    'control': True if e.control is None else e.control,
                    'select': [(s[0], s[2]) for s in e.select],
                    'guard': canon(e.guard, eenv) if e.guard is not None else '(CONSTANT 1)',
                    'sync': ('(SYNC %s %s)' % (e.sync[1], canon(e.sync[0], eenv))) if e.sync is not None else '()',
                    'assign': self._exp_update(e.update, eenv) if e.update is not None else '(CONSTANT 1)',
                    'prob': canon(e.prob, eenv) if e.prob is not None else '(CONSTANT 1)'})
            exp['templates'].append(te)
        prio = {}
        for k, grp in enumerate(self.system):
            for n in grp:
                prio[n] = k
        inst_by_name = {i[0]: i for i in self.insts}
        for grp in self.system:
            for n in grp:
                if n in inst_by_name:
                    e = dict(inst_by_name[n][4])
                else:
                    t = [t for t in self.templates if t.name == n][0]
                    e = {'name': n, 'template': n, 'unbound': len(t.params), 'mapping': []}
                e['priority'] = prio[n]
                exp['processes'].append(e)
        for i in self.insts:
            exp['instances'].append(dict(i[4]))
        return exp

    def _exp_decls(self, decls):
        return {'vars': [v for d in decls for v in d.vars], 'funcs': [f for d in decls for f in d.funcs],
                'typedefs': [t for d in decls for t in d.typedefs]}

    @staticmethod
    def _exp_update(upd, env):
        c = [canon(u, env) for u in upd]
        e = c[0]
        for x in c[1:]:
            e = '(COMMA %s %s)' % (e, x)
        return e


# ------------------------------------------------------------------ projection of the server dump
def parse_type(s):
    """parse the oracle server's type string into (kind, expr, [(label, child)])"""
    pos = [0]

    def node():
        m = re.match(r'<null>|<deep>|\?KIND|[A-Z_0-9]+', s[pos[0]:])
        if not m:
            raise ValueError('cannot parse type %r at %d' % (s, pos[0]))
        kind = m.group(0)
        pos[0] += len(kind)
        expr = None
        kids = []
        if pos[0] < len(s) and s[pos[0]] == '<':
            # <expr> : balanced on parentheses
            depth = 0
            j = pos[0] + 1
            while True:
                ch = s[j]
                if ch == '(':
                    depth += 1
                elif ch == ')':
                    depth -= 1
                elif ch == '>' and depth == 0:
                    break
                j += 1
            expr = s[pos[0] + 1:j]
            pos[0] = j + 1
        if pos[0] < len(s) and s[pos[0]] == '{':
            j = s.index('}', pos[0])
            kids = [(x, None) for x in s[pos[0] + 1:j].split(',') if x]
            pos[0] = j + 1
            return (kind, expr, kids)
        if pos[0] < len(s) and s[pos[0]] == '(':
            pos[0] += 1
            while True:
                m = re.match(r'([A-Za-z_0-9#$:]*?):(?=[A-Z<])', s[pos[0]:])
                label = ''
                if m:
                    label = m.group(1)
                    pos[0] += len(m.group(0))
                kids.append((label, node()))
                if s[pos[0]] == ',':
                    pos[0] += 1
                    continue
                if s[pos[0]] == ')':
                    pos[0] += 1
                    break
        return (kind, expr, kids)
    if s.startswith('<null>'):
        return ('<null>', None, [])
    return node()


PREFIXES = ('CONSTANT', 'REF', 'URGENT', 'BROADCAST', 'HYBRID', 'SYSTEM_META', 'COMMITTED')


def summarize(n):
    """type summary used on both sides of the comparison"""
    kind, expr, kids = n
    pre = []
    while kind in PREFIXES:
        pre.append(kind)
        kind, expr, kids = kids[0][1]
    if kind == 'LABEL':
        base = ('label', kids[0][0])
    elif kind == 'RANGE':
        b = kids[0][1][0]
        base = ('int' if b == 'INT' else b.lower(), kids[1][1][1], kids[2][1][1])
    elif kind == 'ARRAY':
        size = kids[1][1]
        ssum = summarize(size)
        base = ('array', summarize(kids[0][1]), ssum)
    elif kind == 'RECORD':
        base = ('struct', tuple((l, summarize(c)) for l, c in kids))
    elif kind in ('FUNCTION', 'FUNCTION_EXTERNAL'):
        base = ('fun', summarize(kids[0][1]), tuple((l, summarize(c)) for l, c in kids[1:]))
    else:
        base = (kind.lower(),)
    return (tuple(pre), base)


def tsum_of(typestr):
    return summarize(parse_type(typestr))


BUILTIN_NAMES = None


def project(doc, nbuiltin_vars=None):
    """project the oracle server's doc dump onto the fields C04 lists"""
    def decls(d, skip_builtins):
        vs = d['variables']
        if skip_builtins:
            vs = [v for v in vs if not is_builtin(v['name'])]
        tds = [s for s in d['symbols'] if s['kind'] == 'TYPEDEF' and not (skip_builtins and is_builtin(s['name']))]
        return {'vars': [(v['name'], tsum_of(v['type']), v['init']) for v in vs],
                'funcs': [(f['name'], len(f.get('params') or []) - 0, f['body']) for f in d['functions']],
                'typedefs': [(s['name'], tsum_of(s['type'])) for s in tds]}

    def inst(i):
        return {'name': i['name'], 'template': i['template'], 'unbound': i['unbound'],
                'mapping': [(m['param'], m['arg']) for m in i['mapping']]}
    out = {'globals': decls(doc['globals'], True), 'templates': [], 'processes': [], 'instances': []}
    for t in doc['templates']:
        te = {'name': t['name'], 'params': [(p['name'], tsum_of(p['type'])) for p in t['parameters']],
              'decls': decls(t['decls'], False), 'locations': [], 'branchpoints': [b['name'] for b in t['branchpoints']],
              'init': t['init'], 'edges': []}
        # template frame variables include nothing but locals (parameters live in another frame)
        for l in t['locations']:
            ty = l['type']
            te['locations'].append({'name': l['name'], 'invariant': l['invariant'], 'exp_rate': l['exp_rate'],
                                    'urgent': ty.startswith('URGENT('), 'committed': ty.startswith('COMMITTED(')})
        for e in t['edges']:
            te['edges'].append({'src': e['src'], 'dst': e['dst'], 'control': e['control'],
                                'select': [(s['name'], tsum_of(s['type'])) for s in e['select']],
                                'guard': e['guard'], 'sync': e['sync'], 'assign': e['assign'], 'prob': e['prob']})
        out['templates'].append(te)
    for p in doc['processes']:
        e = inst(p)
        e['priority'] = p['priority']
        out['processes'].append(e)
    for i in doc['instances']:
        out['instances'].append(inst(i))
    return out


_BUILTIN = {'INT8_MIN', 'INT8_MAX', 'UINT8_MAX', 'INT16_MIN', 'INT16_MAX', 'UINT16_MAX', 'INT32_MIN', 'INT32_MAX', 'int8_t', 'uint8_t',
            'int16_t', 'uint16_t', 'int32_t', 'FLT_MIN', 'FLT_MAX', 'DBL_MIN', 'DBL_MAX', 'M_PI', 'M_PI_2', 'M_PI_4', 'M_E', 'M_LOG2E',
            'M_LOG10E', 'M_LN2', 'M_LN10', 'M_1_PI', 'M_2_PI', 'M_2_SQRTPI', 'M_SQRT2', 'M_SQRT1_2'}


def is_builtin(n):
    return n in _BUILTIN


def norm_binders(s):
    m = {}

    def f(mo):
        k = mo.group(0)
        if k not in m:
            m[k] = '?%d/' % len(m)
        return m[k]
    return re.sub(r'\?\d+/', f, s)


def sexp_split(s):
    """children (as strings) of an S-expression '(KIND a b ...)' -> (head tokens, [child strings])"""
    assert s[0] == '(' and s[-1] == ')'
    inner = s[1:-1]
    depth = 0
    parts = []
    cur = ''
    i = 0
    instr = False
    while i < len(inner):
        ch = inner[i]
        if instr:
            cur += ch
            if ch == '\\':
                cur += inner[i + 1]
                i += 1
            elif ch == '"':
                instr = False
        elif ch == '"':
            instr = True
            cur += ch
        elif ch == '(':
            depth += 1
            cur += ch
        elif ch == ')':
            depth -= 1
            cur += ch
        elif ch == ' ' and depth == 0:
            parts.append(cur)
            cur = ''
        else:
            cur += ch
        i += 1
    if cur:
        parts.append(cur)
    return parts[0], parts[1:]


def conjuncts(s):
    """flatten the AND structure of an invariant and drop the leading constant 1 the type checker adds"""
    if s == '()':
        return []
    head, kids = sexp_split(s)
    if head == 'AND' and len(kids) == 2:
        return conjuncts(kids[0]) + conjuncts(kids[1])
    if s == '(CONSTANT 1)':
        return []
    return [s]


def diff(exp, got, path=''):
    """first difference between two projections -> (path, expected, got) or None"""
    if type(exp) != type(got) and not (isinstance(exp, (list, tuple)) and isinstance(got, (list, tuple))):
        return (path, exp, got)
    if isinstance(exp, dict):
        for k in exp:
            if k not in got:
                return (path + '/' + k, exp[k], '<missing>')
            d = diff(exp[k], got[k], path + '/' + k)
            if d:
                return d
        for k in got:
            if k not in exp:
                return (path + '/' + k, '<missing>', got[k])
        return None
    if isinstance(exp, (list, tuple)):
        if len(exp) != len(got):
            return (path + '#len', len(exp), len(got), )
        for i, (a, b) in enumerate(zip(exp, got)):
            d = diff(a, b, '%s[%d]' % (path, i))
            if d:
                return d
        return None
    if isinstance(exp, str) and isinstance(got, str) and '?' in exp:
        return None if norm_binders(exp) == norm_binders(got) else (path, exp, got)
    return None if exp == got else (path, exp, got)


# ------------------------------------------------------------------ the generator
def arr_size_sum(n_canon):
    return ((), ('int', '(CONSTANT 0)', '(MINUS %s (CONSTANT 1))' % n_canon))


TS_INT = ((), ('int', INTMIN, INTMAX))
TS_BOOL = ((), ('bool',))
TS_CLOCK = ((), ('clock',))


def ts_range(lo, hi):
    return ((), ('int', lo, hi))


def with_prefix(ts, *pre):
    return (tuple(pre) + ts[0], ts[1])


@st.composite
def models(draw, max_templates=3, sizes='normal', for_xta=False, need_clean=False):
    m = Model()
    g = m.genv
    cnt = [0]

    special = draw(st.integers(0, 3)) == 0      # a quarter of the models use unusual identifiers where they can
    if draw(st.integers(0, 2)) == 0:            # a third carry labels that do not go to the grammar between the ones that do
        m.noise = {'extra_labels': draw(st.integers(1, 10 ** 6))}
    if draw(st.integers(0, 5)) == 0:            # a sixth spell their character data in pieces (XML comments, CDATA sections)
        m.noise['split'] = draw(st.integers(1, 10 ** 6))
    if draw(st.integers(0, 3)) == 0:            # a quarter list the labels of a transition in another order than select, guard, sync, update
        m.noise['edge_label_order'] = draw(st.integers(1, 10 ** 6))
    if draw(st.integers(0, 3)) == 0:            # a quarter have white space and line breaks around the names of templates and locations
        m.noise['name_ws'] = draw(st.integers(1, 10 ** 6))
    used = set()

    def fresh(prefix):
        cnt[0] += 1
        if special and draw(st.integers(0, 2)) == 0:
            pool = NAMES_ANY + NAMES_HARVESTED + (NAMES_VARIABLE_ONLY if prefix in VARIABLE_PREFIXES else [])
            n = pool[draw(st.integers(0, len(pool) - 1))]
            if n not in used:
                used.add(n)
                m.special_names.append(n)
                return n
        return '%s%d' % (prefix, cnt[0])

    # ---- global declarations
    def gen_decl(env, scope_id, local=False):
        kinds = ['int', 'int_init', 'cint', 'rint', 'bool', 'clock', 'arr', 'typedef', 'fun1', 'struct', 'arr_init', 'double']
        if not local:
            kinds += ['chan', 'bchan', 'uchan', 'wfun']
        k = draw(st.sampled_from(kinds))
        sid = lambda n: '%s/%s' % (scope_id, n)
        if k == 'int':
            n = fresh('v')
            env.add(n, sid(n), 'int')
            return Decl('int %s;' % n, vars=[(n, TS_INT, '()')])
        if k == 'int_init':
            e = d_int(draw, Env.__new__(Env) if False else env_consts(env), 1)
            n = fresh('v')
            d = Decl('int %s = %s;' % (n, R(e)), vars=[(n, TS_INT, canon(e, env))])
            env.add(n, sid(n), 'int')
            return d
        if k == 'cint':
            n = fresh('K')
            v = draw(st.integers(1, 4))
            env.add(n, sid(n), 'cint', v)
            return Decl('const int %s = %d;' % (n, v), vars=[(n, (('CONSTANT',), ('int',)), '(CONSTANT %d)' % v)])
        if k == 'rint':
            n = fresh('r')
            hi = draw(st.integers(1, 9))
            env.add(n, sid(n), 'rint')
            return Decl('int[0,%d] %s;' % (hi, n), vars=[(n, ts_range('(CONSTANT 0)', '(CONSTANT %d)' % hi), '()')])
        if k == 'bool':
            n = fresh('b')
            env.add(n, sid(n), 'bool')
            init = draw(st.sampled_from([None, 'true', 'false']))
            return Decl('bool %s%s;' % (n, ' = ' + init if init else ''),
                        vars=[(n, TS_BOOL, '()' if init is None else '(CONSTANT b:%d)' % (init == 'true'))])
        if k == 'clock':
            n = fresh('x')
            env.add(n, sid(n), 'clock')
            return Decl('clock %s;' % n, vars=[(n, TS_CLOCK, '()')])
        if k == 'double':
            n = fresh('d')
            env.add(n, sid(n), 'double')
            return Decl('double %s = 0.5;' % n, vars=[(n, ((), ('double',)), '(CONSTANT d:0x1p-1)')])
        if k == 'arr':
            n = fresh('a')
            sz = draw(st.integers(2, 4))
            env.add(n, sid(n), 'arr', sz)
            return Decl('int %s[%d];' % (n, sz), vars=[(n, ((), ('array', TS_INT, arr_size_sum('(CONSTANT %d)' % sz))), '()')])
        if k == 'arr_init':
            n = fresh('a')
            env.add(n, sid(n), 'arr', 2)
            return Decl('int %s[2] = { 1, 2 };' % n,
                        vars=[(n, ((), ('array', TS_INT, arr_size_sum('(CONSTANT 2)'))), '(LIST (CONSTANT 1) (CONSTANT 2))')])
        if k == 'typedef':
            n = fresh('t')
            hi = draw(st.integers(1, 3))
            env.add(n, sid(n), 'type', hi)
            return Decl('typedef int[0,%d] %s;' % (hi, n), typedefs=[(n, ((), ('typedef', )))])
        if k == 'struct':
            n = fresh('s')
            env.add(n, sid(n), 'struct')
            return Decl('struct { int f; int g; } %s;' % n, vars=[(n, ((), ('struct', (('f', TS_INT), ('g', TS_INT)))), '()')])
        if k == 'fun1':
            n = fresh('f')
            u = fresh('u')
            fid = '%s.F(%s)/%s' % (scope_id, n, u)
            fenv = Env(env)
            fenv.add(u, fid, 'int')
            body = ('bin', '+', ID(u), d_int(draw, env_consts(env), 0))
            d = Decl('int %s(int %s) { return %s; }' % (n, u, R(body)),
                     funcs=[(n, 1, '(BODY (RETURN %s))' % canon(body, fenv))])
            env.add(n, sid(n), 'fun1')
            return d
        if k == 'wfun':
            n = fresh('w')
            u = fresh('u')
            fid = '%s.F(%s)/%s' % (scope_id, n, u)
            d = Decl('void %s(int &%s) { %s = %s + 1; }' % (n, u, u, u),
                     funcs=[(n, 1, '(BODY (EXPR (ASSIGN (IDENTIFIER @%s) (PLUS (IDENTIFIER @%s) (CONSTANT 1)))))' % (fid, fid))])
            env.add(n, sid(n), 'wfun')
            return d
        if k in ('chan', 'bchan', 'uchan'):
            n = fresh('c')
            pre = {'chan': '', 'bchan': 'broadcast ', 'uchan': 'urgent '}[k]
            ts = {'chan': ((), ('channel',)), 'bchan': (('BROADCAST',), ('channel',)), 'uchan': (('URGENT',), ('channel',))}[k]
            env.add(n, sid(n), 'chan')
            return Decl('%schan %s;' % (pre, n), vars=[(n, ts, '()')])
        raise AssertionError(k)

    def env_consts(env):
        e = Env()
        for n, (sid, kind, ex) in env.all().items():
            if kind in ('cint',):
                e.add(n, sid, kind, ex)
        return e

    ng = draw(st.integers(0, 6))
    for _ in range(ng):
        m.gdecls.append(gen_decl(g, 'g'))
    # make sure there is at least a channel sometimes and a clock
    nt = draw(st.integers(1, max_templates))
    idc = [0]

    def newid():
        idc[0] += 1
        return 'id%d' % idc[0]

    for ti in range(nt):
        t = Template(fresh('T'))
        tenv = Env(g)
        # parameters
        for _ in range(draw(st.integers(0, 3)) if not (need_clean and ti == 0) else 0):
            pk = draw(st.sampled_from(['int', 'cint', 'refint', 'bool', 'crange']))
            pn = fresh('p')
            pid = 'T(%s).p/%s' % (t.name, pn)
            if pk == 'int':
                t.params.append((pn, 'int ' + pn, False, TS_INT, pk))
                tenv.add(pn, pid, 'pint')
            elif pk == 'cint':
                t.params.append((pn, 'const int ' + pn, False, (('CONSTANT',), ('int',)), pk))
                tenv.add(pn, pid, 'pint')
            elif pk == 'refint':
                t.params.append((pn, 'int &' + pn, True, with_prefix(TS_INT, 'REF'), pk))
                tenv.add(pn, pid, 'int')
            elif pk == 'bool':
                t.params.append((pn, 'bool ' + pn, False, TS_BOOL, pk))
                tenv.add(pn, pid, 'pbool')
            else:
                t.params.append((pn, 'const int[0,3] ' + pn, False, with_prefix(ts_range('(CONSTANT 0)', '(CONSTANT 3)'), 'CONSTANT'), pk))
                tenv.add(pn, pid, 'pint')
        for _ in range(draw(st.integers(0, 3))):
            t.decls.append(gen_decl(tenv, 'T(%s)' % t.name, local=True))
        t.env = tenv
        # locations
        nl = draw(st.integers(1, 5))
        for li in range(nl):
            lid = newid()
            name = fresh('L') if (for_xta or draw(st.integers(0, 3)) > 0) else None
            l = Loc(lid, name)
            if draw(st.integers(0, 2)) == 0:
                l.inv = d_clockcond(draw, tenv, upper_only=True)
            if draw(st.integers(0, 4)) == 0:
                l.rate = d_int(draw, tenv, 1)
            f = draw(st.integers(0, 5))
            l.urgent, l.committed = f == 0, f == 1
            t.locs.append(l)
            tenv.add(l.dname, 'T(%s)/%s' % (t.name, l.dname), 'loc')
        for _ in range(draw(st.integers(0, 2))):
            bid = newid()
            t.bps.append((bid, '_' + bid))
        t.init = draw(st.sampled_from(t.locs))
        ends = [('L', l.dname, l.id) for l in t.locs] + [('B', b[1], b[0]) for b in t.bps]
        for ei in range(draw(st.integers(0, 6))):
            e = Edge()
            e.src = draw(st.sampled_from(ends))
            e.dst = draw(st.sampled_from(ends)) if draw(st.integers(0, 4)) else e.src
            e.control = draw(st.sampled_from([None, None, True, False]))
            eenv = Env(tenv)
            if draw(st.integers(0, 2)) == 0:
                for _ in range(draw(st.integers(1, 2))):
                    sn = fresh('i')
                    # a select binder may take the name of something already visible (it shadows it inside the edge)
                    shadowable = [n for n in tenv.of_kind('int', 'cint', 'rint', 'pint') if n not in [x[0] for x in e.select]]
                    if shadowable and draw(st.integers(0, 3)) == 0:
                        sn = draw(st.sampled_from(shadowable))
                    tys = [('int[0,3]', with_prefix(ts_range('(CONSTANT 0)', '(CONSTANT 3)'), 'CONSTANT'))]
                    for tn in tenv.of_kind('type'):
                        tys.append((tn, (('CONSTANT',), ('label', tn))))
                    tt = draw(st.sampled_from(tys))
                    e.select.append((sn, tt[0], tt[1]))
                    eenv.add(sn, 'T(%s).E%d.sel/%s' % (t.name, ei, sn), 'sel')
            if draw(st.integers(0, 1)):
                e.guard = d_clockcond(draw, eenv) if draw(st.booleans()) else d_bool(draw, eenv, 2)
            chans = eenv.of_kind('chan')
            if chans and draw(st.integers(0, 1)):
                e.sync = (ID(draw(st.sampled_from(chans))), draw(st.sampled_from(['!', '?'])))
            if draw(st.integers(0, 1)):
                ups = []
                for _ in range(draw(st.integers(1, 3))):
                    uk = draw(st.sampled_from(['asg', 'asg', 'clk', 'inc', 'call']))
                    targets = eenv.of_kind('int', 'rint')
                    if uk == 'asg' and targets:
                        ups.append(('asg', draw(st.sampled_from(['=', ':=', '+='])), ID(draw(st.sampled_from(targets))), d_int(draw, eenv, 1)))
                    elif uk == 'clk' and eenv.of_kind('clock'):
                        ups.append(('asg', '=', ID(draw(st.sampled_from(eenv.of_kind('clock')))), ('int', 0)))
                    elif uk == 'inc' and targets:
                        ups.append(('post', '++', ID(draw(st.sampled_from(targets)))))
                    elif uk == 'call' and eenv.of_kind('wfun') and eenv.of_kind('int'):
                        ups.append(('call', draw(st.sampled_from(eenv.of_kind('wfun'))), [ID(draw(st.sampled_from(eenv.of_kind('int'))))]))
                if ups:
                    e.update = ups
            if e.src[0] == 'B' and draw(st.integers(0, 1)):
                e.prob = d_int(draw, env_consts(eenv), 0)
            t.edges.append(e)
        m.templates.append(t)

    # ---- instantiations and system
    procs = []
    inst_info = {}   # name -> (params[(name, text, tsum, kind)], template, mapping list [(param, canon)], unbound)
    for t in m.templates:
        inst_info[t.name] = ([(p[0], p[1], p[3], p[4]) for p in t.params], t.name, [], len(t.params))
    candidates = list(inst_info)
    for _ in range(draw(st.integers(0, 4)) if candidates else 0):
        target = draw(st.sampled_from(sorted(inst_info)))
        tparams, tname, tmap, tunb = inst_info[target]
        unbound_params = tparams[:tunb]
        iname = fresh('I')
        own = []
        ienv = Env(g)
        if unbound_params and draw(st.integers(0, 2)) == 0:
            for _ in range(draw(st.integers(1, 2))):
                qn = fresh('q')
                own.append((qn, 'const int[0,3] ' + qn, with_prefix(ts_range('(CONSTANT 0)', '(CONSTANT 3)'), 'CONSTANT'), 'crange'))
        args = []
        mapping = []
        for (pn, ptext, pts, pk) in unbound_params:
            if pk == 'refint':
                cands = g.of_kind('int')
                if not cands:
                    args = None
                    break
                a = ID(draw(st.sampled_from(cands)))
            elif pk == 'bool':
                a = ('bool', draw(st.sampled_from([0, 1])))
            else:
                opts = [('int', draw(st.integers(0, 3)))]
                if own:
                    opts += [ID(o[0]) for o in own]
                a = draw(st.sampled_from(opts))
            args.append(a)
        if args is None:
            continue
        in_system = None
        inst_info[iname] = (own + tparams, tname, None, len(own))
        m.insts.append([iname, [(o[0], o[1], o[2]) for o in own], target, args, None])
    # parameter name lists of every instance (own first, then the target's), needed for ids and for "listable"
    plist = {t.name: [(p[0], p[3], p[4]) for p in t.params] for t in m.templates}
    unb = {t.name: len(t.params) for t in m.templates}
    tmpl_of = {t.name: t.name for t in m.templates}
    for i in m.insts:
        iname, own, target, args, _ = i
        plist[iname] = [(o[0], o[2], 'crange') for o in own] + plist[target]
        unb[iname] = len(own)
        tmpl_of[iname] = tmpl_of[target]
    names = sorted(plist)
    if need_clean:
        # a process with free parameters is accepted only if they are bounded integers
        names = [n for n in names if all(k == 'crange' for (_, _, k) in plist[n][:unb[n]])]
        if not names:
            # fall back: instantiate the first template fully with literals / globals where possible
            names = []
    listed = draw(st.lists(st.sampled_from(names), min_size=1, max_size=min(4, len(names)), unique=True)) if names else []
    groups = []
    for n in listed:
        if groups and draw(st.integers(0, 2)) == 0 and not need_clean:
            groups.append([n])
        elif groups:
            groups[-1].append(n)
        else:
            groups.append([n])
    m.system = groups
    # symbol ids of instance parameters: first registered through the process list (in order), then through instances
    own_ids = {}
    tparam_names = {p[0] for t in m.templates for p in t.params}
    for n in listed:
        for (pn, pts, pk) in plist[n]:
            if pn not in tparam_names:
                own_ids.setdefault(pn, 'P(%s).p/%s' % (n, pn))
    for i in m.insts:
        for (pn, pts, pk) in plist[i[0]]:
            if pn not in tparam_names:
                own_ids.setdefault(pn, 'I(%s).p/%s' % (i[0], pn))
    # expected mappings (chained instances inherit the target's mapping)
    done = {t.name: {'params': [(p[0], p[3]) for p in t.params], 'mapping': [], 'unbound': len(t.params), 'template': t.name} for t in m.templates}
    for i in m.insts:
        iname, own, target, args, _ = i
        tgt = done[target]
        ienv = Env(g)
        for (qn, qt, qts) in own:
            ienv.add(qn, own_ids[qn], 'pint')
        unbp = tgt['params'][:tgt['unbound']]
        new_map = dict(tgt['mapping'])
        for (pn, pts), a in zip(unbp, args):
            new_map[pn] = canon(a, ienv)
        params = [(o[0], o[2]) for o in own] + tgt['params']
        done[iname] = {'params': params, 'mapping': [(pn, new_map[pn]) for pn, _ in params if pn in new_map], 'unbound': len(own),
                       'template': tgt['template']}
        i[4] = {'name': iname, 'template': tgt['template'], 'unbound': len(own),
                'mapping': [(pn, new_map[pn]) for pn, _ in params if pn in new_map]}
    m.done = done
    return m
