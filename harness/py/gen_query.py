"""Typed expression strategies and every query form of the grammar (C03, C19), on three model flavours."""
from hypothesis import strategies as st

import gen_expr as G

DECL_COMMON = ('int a, b, c; bool p, q; int arr[4]; clock x, y; const int N = 3; typedef int[0,3] T; '
               'int fn(int u, int v) { return u + v; } struct { int f; int g; } s; ')
TEMPLATE = ('<template><name>P</name><declaration>int loc; clock z;</declaration>'
            '<location id="id0"><name>L0</name><label kind="invariant">z &lt;= 10</label>%s</location>'
            '<location id="id1"><name>L1</name></location><location id="id2"><name>Goal</name></location><init ref="id0"/>'
            '<transition%s><source ref="id0"/><target ref="id1"/><label kind="guard">z &gt;= 1</label>'
            '<label kind="synchronisation">ch!</label><label kind="assignment">loc = 1, z = 0</label></transition>'
            '<transition><source ref="id1"/><target ref="id2"/><label kind="synchronisation">ch?</label></transition>'
            '<transition%s><source ref="id2"/><target ref="id0"/></transition></template>')


def model(flavour):
    if flavour == 'ta':
        decl = DECL_COMMON + 'chan ch;'
        t = TEMPLATE % ('', '', '')
    elif flavour == 'smc':
        decl = DECL_COMMON + 'broadcast chan ch; double d = 0.5, e; hybrid clock h;'
        t = TEMPLATE % ('<label kind="exponentialrate">2</label>', '', '')
    else:
        decl = DECL_COMMON + 'broadcast chan ch;'
        t = TEMPLATE % ('', ' controllable="false"', ' controllable="false"')
    return '<nta><declaration>%s</declaration>%s<system>Q = P(); R = P(); system Q, R;</system></nta>' % (
        decl.replace('&', '&amp;').replace('<', '&lt;'), t)


MODELS = {f: model(f) for f in ('ta', 'smc', 'game')}

ID = lambda n: ('id', n)
INT_LEAVES = [ID('a'), ID('b'), ID('c'), ID('N'), ('dot', ID('s'), 'f'), ('dot', ID('Q'), 'loc'), ('dot', ID('R'), 'loc'),
              ('idx', ID('arr'), ('int', 1)), ('int', 0), ('int', 1), ('int', 2), ('int', 7), ('int', 2147483647), ('int', -2147483648)]
BOOL_LEAVES = [ID('p'), ID('q'), ('bool', 1), ('bool', 0), ('dot', ID('Q'), 'L1'), ('dot', ID('R'), 'Goal'), ('dot', ID('Q'), 'L0')]
CLOCKS = [ID('x'), ID('y'), ('dot', ID('Q'), 'z'), ('dot', ID('R'), 'z')]
DBL_TEXTS = ['0.5', '1.5e3', '0.1', '2.25', '1e-3', '3.141592653589793', '0.30000000000000004', '1e22', '123456.789', '4.9e-324', '100.0']

# field indexes used by the canonical form for the typed environment
G.FIELDS.update({'loc': None, 'z': None, 'L0': None, 'L1': None, 'Goal': None})


def ints(depth=3):
    leaf = st.sampled_from(INT_LEAVES) | st.integers(0, 1000).map(lambda v: ('int', v))

    def ext(ch):
        return st.one_of(
            st.tuples(st.sampled_from(['+', '-', '*', '/', '%', '<<', '>>', '&', '|', '^', '<?', '>?']), ch, ch).map(lambda x: ('bin', x[0], x[1], x[2])),
            st.tuples(st.sampled_from(['+', '-', '*']), ch, ch).map(lambda x: ('bin', x[0], x[1], x[2])),
            ch.map(lambda e: ('un', '-', e)),
            st.tuples(bools_shallow(), ch, ch).map(lambda x: ('iif', x[0], x[1], x[2])),
            st.tuples(ch, ch).map(lambda x: ('call', 'fn', [x[0], x[1]])),
            ch.map(lambda e: ('bf', 'abs', [e])),
            ch.map(lambda e: ('idx', ID('arr'), e)),
            ch.map(lambda e: ('q', 'sum', 'i', 'int[0,3]', ('bin', '+', e, ID('i')))),
        )
    return st.recursive(leaf, ext, max_leaves=2 ** depth)


def bools_shallow():
    return st.sampled_from(BOOL_LEAVES) | st.tuples(st.sampled_from(['<', '<=', '==', '!=', '>=', '>']), st.sampled_from(INT_LEAVES),
                                                    st.sampled_from(INT_LEAVES)).map(lambda x: ('bin', x[0], x[1], x[2]))


def clock_atoms():
    rel = st.sampled_from(['<', '<=', '>=', '>', '=='])
    small = st.sampled_from(INT_LEAVES[:4] + [('int', 3), ('int', 10)])
    return st.one_of(
        st.tuples(rel, st.sampled_from(CLOCKS), small).map(lambda x: ('bin', x[0], x[1], x[2])),
        st.tuples(rel, st.sampled_from(CLOCKS), st.sampled_from(CLOCKS), small).map(lambda x: ('bin', x[0], ('bin', '-', x[1], x[2]), x[3])),
    )


def bools(depth=3, clocks=True, doubles=False):
    leaf = bools_shallow()
    if clocks:
        leaf = leaf | clock_atoms()
    if doubles:
        leaf = leaf | st.tuples(st.sampled_from(['<', '<=', '>=', '>']), dbls(1), dbls(1)).map(lambda x: ('bin', x[0], x[1], x[2]))
    cmp_int = st.tuples(st.sampled_from(['<', '<=', '==', '!=', '>=', '>']), ints(2), ints(2)).map(lambda x: ('bin', x[0], x[1], x[2]))
    leaf = leaf | cmp_int

    def ext(ch):
        return st.one_of(
            st.tuples(st.sampled_from(['&&', '||', 'and', 'or', 'imply']), ch, ch).map(lambda x: ('bin', x[0], x[1], x[2])),
            st.tuples(st.sampled_from(['&&', '||']), ch, ch).map(lambda x: ('bin', x[0], x[1], x[2])),
            ch.map(lambda e: ('un', '!', e)),
            ch.map(lambda e: ('un', 'not', e)),
            st.tuples(st.sampled_from(['forall', 'exists']), ch).map(
                lambda x: ('q', x[0], 'i', 'int[0,3]', ('bin', '&&', ('bin', '>=', ('idx', ID('arr'), ID('i')), ('int', 0)), x[1]))),
            st.tuples(st.sampled_from(['forall', 'exists']), ch).map(
                lambda x: ('q', x[0], 'k', 'T', ('bin', '||', ('bin', '==', ID('k'), ID('a')), x[1]))),
        )
    return st.recursive(leaf, ext, max_leaves=2 ** depth)


def dbls(depth=2):
    leaf = st.sampled_from([ID('d'), ID('e')]) | st.sampled_from(DBL_TEXTS).map(lambda t: ('dbl', t)) | \
        st.floats(min_value=1e-300, max_value=1e300, allow_nan=False, allow_infinity=False).map(
            lambda v: ('dbl', repr(v) if ('e' in repr(v) or '.' in repr(v)) else repr(v) + '.0'))

    def ext(ch):
        return st.one_of(
            st.tuples(st.sampled_from(['+', '-', '*', '/']), ch, ch).map(lambda x: ('bin', x[0], x[1], x[2])),
            ch.map(lambda e: ('bf', 'sqrt', [e])), ch.map(lambda e: ('bf', 'fabs', [e])),
            st.tuples(ch, ch).map(lambda x: ('bf', 'pow', [x[0], x[1]])),
            ch.map(lambda e: ('un', '-', e)),
        )
    return st.recursive(leaf, ext, max_leaves=2 ** depth)


R = lambda t: G.render(t, 'min')

# A query case is a list of parts: plain strings and typed slots ('B'|'I'|'D', tree).
SKELETON_LEAF = {'B': ('id', 'p'), 'I': ('id', 'a'), 'D': ('id', 'd')}


def qtext(parts, skeleton=False):
    out = []
    for x in parts:
        if isinstance(x, str):
            out.append(x)
        else:
            out.append(R(SKELETON_LEAF[x[0]] if skeleton else x[1]))
    return ''.join(out)


def slots(parts):
    return [x for x in parts if not isinstance(x, str)]


def bound():
    """SMC bound texts: [<=I] [#<=I] [x<=I] with optional ;runs"""
    i = st.sampled_from(['10', '100', 'N', 'a + 5', '2 * N'])
    kind = st.sampled_from(['<=', '#<=', 'x<=', 'y<='])
    runs = st.sampled_from(['', '', ';5', ';100'])
    return st.tuples(kind, i, runs).map(lambda x: '[%s%s%s]' % x)


def seq(*items):
    """strategy of part lists from strategies / constants"""
    ss = [it if not isinstance(it, str) else st.just(it) for it in items]
    return st.tuples(*ss).map(lambda xs: [y for x in xs for y in (x if isinstance(x, list) else [x])])


def commalist(item, lo=1, hi=3):
    def join(l):
        out = []
        for k, x in enumerate(l):
            if k:
                out.append(', ')
            out.append(x)
        return out
    return st.lists(item, min_size=lo, max_size=hi).map(join)


def query_forms():
    """name -> (flavour, strategy producing a part list)"""
    B = bools(2).map(lambda t: ('B', t))
    Bnc = bools(2, clocks=False).map(lambda t: ('B', t))
    Bs = bools(2, clocks=True, doubles=True).map(lambda t: ('B', t))     # SMC predicates may use doubles
    I = ints(2).map(lambda t: ('I', t))
    D = dbls(2).map(lambda t: ('D', t))
    ID_ = st.one_of(I, D)
    clk = st.sampled_from(['x', 'Q.z', 'y'])
    f = {}
    for name, pre in (('AG', 'A[] '), ('EF', 'E<> '), ('AF', 'A<> '), ('EG', 'E[] ')):
        f[name] = ('ta', seq(pre, B))
    f['leadsto'] = ('ta', seq(B, ' --> ', B))

    f['deadlock'] = ('ta', st.sampled_from([['A[] not deadlock'], ['E<> deadlock'], ['A[] !deadlock'], ['E<> deadlock && p']]))
    for kw in ('sup', 'inf', 'bounds'):
        f[kw] = ('ta', seq(kw + ': ', commalist(st.one_of(I, clk))))
        f[kw + '-pred'] = ('ta', seq(kw + '{', Bnc, '}: ', commalist(st.one_of(I, clk), 1, 2)))
    pt = st.sampled_from(['<> ', '[] '])
    f['Pr'] = ('smc', seq('Pr', bound(), '(', pt, Bs, ')'))
    f['Pr-cmp-const'] = ('smc', seq('Pr', bound(), '(', pt, Bs, ') ', st.sampled_from(['>= ', '<= ']), st.sampled_from(['0.5', '0.25', '0.9', '0.1'])))
    f['Pr-until'] = ('smc', seq('Pr', bound(), '(', Bs, ' U ', Bs, ')'))
    f['Pr-cmp-Pr'] = ('smc', seq('Pr', bound(), '(', pt, Bs, ') >= Pr', bound(), '(', pt, Bs, ')'))
    f['E-value'] = ('smc', seq('E', bound().filter(lambda b: ';' in b), '(', st.sampled_from(['max: ', 'min: ']), ID_, ')'))
    f['simulate'] = ('smc', seq('simulate ', bound(), ' {', commalist(st.one_of(I, D, st.sampled_from(['x', 'Q.z', 'Q.L1']))), '}'))
    f['simulate-filter'] = ('smc', seq('simulate ', bound().filter(lambda b: ';' in b), ' {', commalist(I, 1, 2), '} : ', Bs))
    f['simulate-accept'] = ('smc', seq('simulate ', bound().filter(lambda b: ';' in b), ' {', commalist(I, 1, 2), '} : ',
                                       st.integers(1, 9).map(str), ' : ', Bs))
    f['control-AF'] = ('game', seq('control: A<> ', B))
    f['control-AG'] = ('game', seq('control: A[] ', B))
    f['control-AU'] = ('game', seq('control: A[ ', B, ' U ', B, ' ]'))
    f['control-AW'] = ('game', seq('control: A[ ', B, ' W ', B, ' ]'))
    f['control_t2'] = ('game', seq('control_t*(', I, ', ', I, '): A<> ', B))
    f['control_t1'] = ('game', seq('control_t*(', I, '): A<> ', B))
    f['control_t0'] = ('game', seq('control_t*: A<> ', B))
    f['EF-control'] = ('game', seq('E<> control: A[] ', B))
    f['PO-control'] = ('game', seq('{', commalist(I, 1, 2), '} control: A<> ', B))
    feat = st.sampled_from(['', ' {a, Q.loc} -> {x}', ' {b} -> {}', ' {} -> {Q.z, y}'])
    f['minE'] = ('smc', seq(st.sampled_from(['minE', 'maxE']), '(', ID_, ')[', st.sampled_from(['<=', '#<=']), st.sampled_from(['10', 'N', '100']), ']',
                            feat, ' : <> ', Bs))
    f['minPr'] = ('smc', seq(st.sampled_from(['minPr', 'maxPr']), '[', st.sampled_from(['<=', '#<=']), st.sampled_from(['10', 'N']), ']', feat, ' : ', pt, Bs))
    f['loadStrategy'] = ('game', seq('loadStrategy', feat, '(', st.sampled_from(['"/tmp/s.json"', '"strat"']), ')'))
    f['mitl'] = ('smc', st.one_of(seq('Pr (', st.sampled_from(['<>', '[]']), '[0,5] ', Bs, ')'),
                                  seq('Pr ((', Bs, st.sampled_from([' U', ' R']), '[1,3] ', Bs, '))'),
                                  seq('Pr ((X ', Bs, '))')))
    return f
