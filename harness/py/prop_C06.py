"""C06: every diagnostic points into the element, line and columns that caused it (fault enumeration)."""
import glob
import json
import os
import random

from hypothesis import strategies as st

import common
import faults as F
import gen_model as M
import oracle
import tokenizer as T

LEVEL = 'fault_enumeration'
RULE = ('accepted generated models (gen_model.py) are re-spaced with layout noise in every text block (leading blank lines, '
        'tabs, line breaks, /* */ and // comments, multi-line comments, backslash continuations, CRLF line ends), then ONE fault '
        'of {undeclared identifier, dropped token, unbalanced open/close bracket, stray token, type error, side effect, '
        'unterminated comment} is injected at a token position of ONE text block (global/local declarations, parameters, '
        'select/guard/synchronisation/assignment/probability/invariant/exponentialrate labels, instantiation, system); every '
        'block x up to 10 evenly spread token positions x every applicable fault kind is enumerated per model. A mutation that '
        'yields no error at all is not a fault and is skipped (counted). Oracle, against an independent ElementTree DOM of the '
        'same bytes: (a) every error/warning path selects exactly one element, line within the block, 0 <= column <= line '
        'length, start not after end (structural elements: line 1, columns in [0,1]); (b) some error lies in the faulted '
        'block; (c) for non-declaring labels every error lies in it; (d) for an undeclared identifier some $Unknown_identifier '
        'error covers exactly the identifier. Non-trivial: the fault is not in the first block of its kind, or not on the first '
        'line of its block, or the block carries CRLF/continuation/comment noise; distinct = (model, block path, token, fault). The same models are also rendered as XTA text (with layout noise) and faulted at spread token positions: there every diagnostic must carry the empty path, a line of the file, columns inside that line, start before end, an offset on the reported line, and an undeclared identifier must be covered exactly.')


def eval_case(xml_mut, block_path, block_kind, block_text, fault, info, diags, all_block_texts):
    """-> None or (rule, what, msgclass)"""
    errors = diags['errors']
    for kind, lst in (('error', errors), ('warning', diags['warnings'])):
        for d in lst:
            msgc = d['msg'].split(':')[0].split(' ')[0]
            els = F.resolve_path(xml_mut, d['path'])
            if len(els) != 1:
                return ('a-path', '%s %r: path %r selects %d elements' % (kind, d['msg'], d['path'], len(els)), msgc)
            if d['epath'] != d['path']:
                return ('a-endpath', '%s %r: starts in %r but ends in %r' % (kind, d['msg'], d['path'], d['epath']), msgc)
            text = all_block_texts.get(d['path'])
            if text is not None and text.strip():
                lines = text.split('\n')
                if not (1 <= d['line'] <= d['eline'] <= len(lines)):
                    return ('a-line', '%s %r at %r: lines %d..%d but the block has %d line(s)' % (kind, d['msg'], d['path'], d['line'], d['eline'], len(lines)), msgc)
                if not (0 <= d['col'] <= len(lines[d['line'] - 1])):
                    return ('a-col', '%s %r at %r: start column %d on a line of length %d' % (kind, d['msg'], d['path'], d['col'], len(lines[d['line'] - 1])), msgc)
                if not (0 <= d['ecol'] <= len(lines[d['eline'] - 1])):
                    return ('a-col', '%s %r at %r: end column %d on a line of length %d' % (kind, d['msg'], d['path'], d['ecol'], len(lines[d['eline'] - 1])), msgc)
                if (d['line'], d['col']) > (d['eline'], d['ecol']):
                    return ('a-order', '%s %r at %r: start %d:%d after end %d:%d' % (kind, d['msg'], d['path'], d['line'], d['col'], d['eline'], d['ecol']), msgc)
                # line/offset consistency with the text itself
                if F.line_col(text, min(d['off'], len(text)))[0] != d['line'] and 0 <= d['off'] <= len(text):
                    return ('a-offset', '%s %r at %r: offset %d is on line %d, reported line %d' % (kind, d['msg'], d['path'], d['off'], F.line_col(text, d['off'])[0], d['line']), msgc)
            else:
                if d['line'] != 1 or not (0 <= d['col'] <= 1) or not (0 <= d['ecol'] <= 1) or d['eline'] != 1:
                    return ('a-structural', '%s %r at structural element %r: %d:%d-%d:%d' % (kind, d['msg'], d['path'], d['line'], d['col'], d['eline'], d['ecol']), msgc)
    if block_path is None:
        return None
    if not any(d['path'] == block_path for d in errors):
        return ('b', 'fault %s in %s (%s): no error inside the block; errors at %r' % (fault, block_path, block_kind, sorted(set((d['path'], d['msg']) for d in errors))[:4]),
                errors[0]['msg'].split(':')[0].split(' ')[0])
    if block_kind in F.NONDECL_LABELS:
        other = [d for d in errors if d['path'] != block_path]
        if other:
            return ('c', 'fault %s in label %s: error %r attributed to %r' % (fault, block_path, other[0]['msg'], other[0]['path']),
                    other[0]['msg'].split(':')[0].split(' ')[0])
    if fault == 'undeclared':
        ok = False
        for d in errors:
            if d['msg'].startswith('$Unknown_identifier') and d['path'] == block_path and block_text[d['off']:d['eoff']] == info['ident']:
                ok = True
        if not ok:
            got = [(d['msg'], block_text[d['off']:d['eoff']] if d['path'] == block_path else d['path']) for d in errors][:3]
            return ('d', 'undeclared identifier %s in %s: no $Unknown_identifier error covers exactly the identifier; got %r' % (info['ident'], block_path, got), '$Unknown_identifier')
    return None


def eval_xta_case(text_mut, fault, info, diags):
    """XTA input: the whole file is one block with an empty path; lines are file lines. -> None or (rule, what, msgclass)"""
    lines = text_mut.split('\n')
    for kind, lst in (('error', diags['errors']), ('warning', diags['warnings'])):
        for d in lst:
            msgc = d['msg'].split(':')[0].split(' ')[0]
            if d['path'] != '' or d['epath'] != '':
                return ('xta-path', '%s %r of an XTA text carries the path %r' % (kind, d['msg'], d['path']), msgc)
            if not (1 <= d['line'] <= d['eline'] <= len(lines)):
                return ('xta-line', '%s %r: lines %d..%d but the text has %d line(s)' % (kind, d['msg'], d['line'], d['eline'], len(lines)), msgc)
            if not (0 <= d['col'] <= len(lines[d['line'] - 1])) or not (0 <= d['ecol'] <= len(lines[d['eline'] - 1])):
                return ('xta-col', '%s %r: columns %d / %d on lines of length %d / %d' % (kind, d['msg'], d['col'], d['ecol'], len(lines[d['line'] - 1]), len(lines[d['eline'] - 1])), msgc)
            if (d['line'], d['col']) > (d['eline'], d['ecol']):
                return ('xta-order', '%s %r: start %d:%d after end %d:%d' % (kind, d['msg'], d['line'], d['col'], d['eline'], d['ecol']), msgc)
            if 0 <= d['off'] <= len(text_mut) and F.line_col(text_mut, d['off'])[0] != d['line']:
                return ('xta-offset', '%s %r: offset %d is on line %d, reported line %d' % (kind, d['msg'], d['off'], F.line_col(text_mut, d['off'])[0], d['line']), msgc)
    if fault == 'undeclared':
        ok = any(d['msg'].startswith('$Unknown_identifier') and text_mut[d['off']:d['eoff']] == info['ident'] for d in diags['errors'])
        if not ok:
            got = [(d['msg'], text_mut[d['off']:d['eoff']]) for d in diags['errors']][:3]
            return ('xta-d', 'undeclared identifier %s: no $Unknown_identifier error covers exactly the identifier; got %r' % (info['ident'], got), '$Unknown_identifier')
    return None


def model_cases(m, rnd):
    """yield (xml_mut, block, text_mut, fault, info, nontrivial, all_texts) for one model"""
    if rnd.random() < 0.5 and not m.noise.get('extra_labels'):
        m.noise['extra_labels'] = rnd.randrange(1, 10 ** 6)     # labels that do not go to the grammar before / between the ones that do
    xml = m.xml()
    doc = F.Doc(xml)
    noisy = {}
    flags = {}
    for b in doc.blocks:
        t = doc.text_of(b)
        mode = rnd.choice(['plain', 'noise', 'noise', 'crlf', 'lead'])
        if mode == 'plain':
            noisy[b['path']] = t
        else:
            lead = rnd.choice(['', '\n', '\n\n  ', '\t']) if mode in ('lead', 'noise') else ''
            noisy[b['path']] = F.add_noise(t, lambda i, n: rnd.choice([None, None] + list(range(n))), crlf=(mode == 'crlf'), lead=lead)
        flags[b['path']] = mode
    return doc, noisy, flags


def worker(chk, wi, nw):
    stats = common.Stats()
    orc = oracle.Oracle(os.path.join(chk.workdir, 'w%d' % wi), cpu_limit=30)
    max_pos = 10 if chk.tier == 'quick' else 40

    def run_one(xml_mut):
        r = orc.request([dict(entry='xml-buffer', builder='document', newxta=1, input=xml_mut, dump='diag')])
        if 'crash' in r:
            return None
        return r['steps'][0]

    def test(args):
        m, seed = args
        rnd = random.Random(seed)
        doc, noisy, flags = model_cases(m, rnd)
        base = doc.serialize(noisy)
        r0 = run_one(base)
        if r0 is None or r0['errors'] or r0.get('exc'):
            stats.extra['models_not_accepted_after_noise'] += 1
            return None
        stats.extra['models'] += 1
        # (a) also applies to the warnings of the accepted model
        v = eval_diag_only(base, r0, noisy)
        if v:
            return finish(v, base, None, 'none', 'accepted-model')
        seen_kind = set()
        for b in doc.blocks:
            first_of_kind = b['kind'] not in seen_kind
            seen_kind.add(b['kind'])
            text = noisy[b['path']]
            toks = T.tokens(text)
            n = len(toks)
            if n == 0:
                continue
            positions = sorted(set(int(i * (n - 1) / max(1, max_pos - 1)) for i in range(max_pos))) if n > max_pos else list(range(n))
            for ti in positions:
                for fault in F.FAULT_KINDS:
                    if fault == 'side-effect' and b['kind'] not in ('guard', 'invariant', 'synchronisation', 'probability', 'select', 'exponentialrate'):
                        continue
                    if b['kind'] not in F.NONDECL_LABELS and fault not in F.DECLARING_BLOCK_FAULTS:
                        # in a declaring block other edits may be valid declarations that merely break their users
                        continue
                    res = F.apply_fault(text, fault, ti, variant=rnd.randrange(100))
                    if res is None:
                        continue
                    text_mut, info = res
                    ov = dict(noisy)
                    ov[b['path']] = text_mut
                    xml_mut = doc.serialize(ov)
                    r = run_one(xml_mut)
                    if r is None:
                        stats.extra['crashes_seen_(C01)'] += 1
                        continue
                    if r.get('exc'):
                        stats.extra['exceptions_seen'] += 1
                        continue
                    line_of_fault = text.count('\n', 0, toks[ti][2]) + 1
                    nontriv = (not first_of_kind) or line_of_fault > 1 or flags[b['path']] in ('crlf', 'noise')
                    if not r['errors']:
                        stats.evaluations += 1
                        stats.extra['mutation_was_not_a_fault'] += 1
                        continue
                    stats.case('%s|%s|%d|%s|%d' % (base, b['path'], ti, fault, seed), nontrivial=nontriv,
                               classes=['block:' + b['kind'], 'fault:' + fault, 'noise:' + flags[b['path']]],
                               sample={'block': b['path'], 'kind': b['kind'], 'fault': fault, 'text': text_mut[:200],
                                       'errors': [(d['msg'], d['path'], d['line'], d['col']) for d in r['errors']][:3]})
                    v = eval_case(xml_mut, b['path'], b['kind'], text_mut, fault, info, r, ov)
                    if v:
                        out = finish(v, xml_mut, (b['path'], b['kind'], text_mut, fault, info, ov), fault, b['kind'])
                        if out:
                            return out
            # semantic faults of a declaring block that cannot be mistaken for another valid declaration: the size of an array declared by a
            # literal size becomes a non-constant / a clock / an ill-typed expression (two variables are declared in front for that purpose)
            if b['kind'] == 'declaration':
                sizes = [k for k in range(1, n - 1) if toks[k][0] == 'int' and toks[k - 1][1] == '[' and toks[k + 1][1] == ']' and k >= 2 and toks[k - 2][0] == 'id']
                for k in sizes[:3]:
                    for fault, repl in (('array-size-not-constant', '(%s + zqsz)'), ('array-size-a-clock', 'zqck'), ('array-size-ill-typed', '(%s + true[0])')):
                        a_, b_ = toks[k][2], toks[k][3]
                        lead = 'int zqsz; clock zqck;\n'
                        text_mut = lead + text[:a_] + (repl % toks[k][1] if '%s' in repl else repl) + text[b_:]
                        ov = dict(noisy)
                        ov[b['path']] = text_mut
                        xml_mut = doc.serialize(ov)
                        r = run_one(xml_mut)
                        if r is None:
                            stats.extra['crashes_seen_(C01)'] += 1
                            continue
                        if r.get('exc') or not r['errors']:
                            stats.extra['mutation_was_not_a_fault'] += 1
                            continue
                        stats.case('%s|%s|%d|%s|%d' % (base, b['path'], k, fault, seed), nontrivial=True, classes=['block:' + b['kind'], 'fault:' + fault, 'noise:' + flags[b['path']]],
                                   sample={'block': b['path'], 'kind': b['kind'], 'fault': fault, 'text': text_mut[:200], 'errors': [(d['msg'], d['path'], d['line'], d['col']) for d in r['errors']][:3]})
                        v = eval_case(xml_mut, b['path'], b['kind'], text_mut, fault, {}, r, ov)
                        if v:
                            out = finish(v, xml_mut, (b['path'], b['kind'], text_mut, fault, {}, ov), fault, b['kind'])
                            if out:
                                return out
        return None

    def eval_diag_only(xml_text, r, texts):
        return eval_case(xml_text, None, 'none', '', 'none', {}, {'errors': [], 'warnings': r['warnings']}, texts) if r['warnings'] else None

    def finish(v, xml_mut, ctx, fault, bkind):
        rule, what, msgc = v
        if rule == 'b' and ctx is None:
            return None
        d = {'rule': rule, 'block': bkind, 'fault': fault, 'msg': msgc}
        case = {'kind': 'c06', 'xml': xml_mut, 'ctx': ctx}
        if chk.is_known(d):
            chk.report(stats, d, what, case)
            return None
        return (d, what, case)

    n = 8 if chk.tier == 'quick' else 90
    common.run_hypothesis(chk, stats, st.tuples(M.models(need_clean=True, max_templates=2), st.integers(0, 10 ** 6)), test, n, chk.seed * 1000 + wi, shrink=False)

    def run_xta(text):
        r = orc.request([dict(entry='xta-buffer', builder='document', newxta=1, input=text, dump='diag')])
        return None if 'crash' in r else r['steps'][0]

    def test_xta(args):
        m, seed = args
        rnd = random.Random(seed)
        mode = rnd.choice(['plain', 'noise', 'noise', 'crlf'])
        text = m.xta()
        if mode != 'plain':
            text = F.add_noise(text, lambda i, n_: rnd.choice([None, None, None] + list(range(n_))), crlf=(mode == 'crlf'), lead=rnd.choice(['', '\n', '\n\n  ']))
        r0 = run_xta(text)
        if r0 is None or r0['errors'] or r0.get('exc'):
            stats.extra['xta_models_not_accepted_after_noise'] += 1
            return None
        stats.extra['xta_models'] += 1
        toks = T.tokens(text)
        ntok = len(toks)
        npos = 25 if chk.tier == 'quick' else 120
        # tokens inside a guard / assign / sync / probability section of a transition (uses, never declarations)
        in_label = []
        inside = False
        for tk in toks:
            if tk[1] in ('guard', 'assign', 'sync', 'probability'):
                inside = True
                in_label.append(False)
                continue
            if tk[1] == ';':
                inside = False
            in_label.append(inside)
        positions = sorted(set(int(i * (ntok - 1) / max(1, npos - 1)) for i in range(npos))) if ntok > npos else list(range(ntok))
        for ti in positions:
            for fault in ('undeclared', 'drop-token', 'unbalanced-open', 'unbalanced-close', 'stray-token', 'type-error', 'unterminated-comment'):
                if fault == 'undeclared' and not in_label[ti]:
                    continue      # elsewhere an identifier may be a declaring occurrence: renaming it breaks its users, not itself
                res = F.apply_fault(text, fault, ti, variant=rnd.randrange(100))
                if res is None:
                    continue
                text_mut, info = res
                r = run_xta(text_mut)
                if r is None:
                    stats.extra['crashes_seen_(C01)'] += 1
                    continue
                if r.get('exc'):
                    stats.extra['exceptions_seen'] += 1
                    continue
                if not r['errors']:
                    stats.evaluations += 1
                    stats.extra['mutation_was_not_a_fault'] += 1
                    continue
                line_of_fault = text.count('\n', 0, toks[ti][2]) + 1
                stats.case('xta|%s|%d|%s|%d' % (text, ti, fault, seed), nontrivial=line_of_fault > 1, classes=['block:xta-file', 'fault:' + fault, 'noise:' + mode],
                           sample={'input': 'xta', 'fault': fault, 'line': line_of_fault, 'errors': [(d['msg'], d['line'], d['col']) for d in r['errors']][:3]})
                v = eval_xta_case(text_mut, fault, info, r)
                if v:
                    rule, what, msgc = v
                    d = {'rule': rule, 'block': 'xta-file', 'fault': fault, 'msg': msgc}
                    case = {'kind': 'c06-xta', 'xta': text_mut, 'fault': fault, 'info': info}
                    if chk.is_known(d):
                        chk.report(stats, d, what, case)
                    else:
                        return (d, what, case)
        return None

    common.run_hypothesis(chk, stats, st.tuples(M.models(for_xta=True, need_clean=True, max_templates=2), st.integers(0, 10 ** 6)), test_xta, 3 if chk.tier == 'quick' else 40,
                          chk.seed * 1000 + 300 + wi, shrink=False)
    orc.close()
    return stats


def confirm(case):
    orc = oracle.Oracle(os.path.join(common.WORK, 'C06', 'confirm'), cpu_limit=30)
    try:
        if case.get('kind') == 'c06-xta':
            r = orc.request([dict(entry='xta-buffer', builder='document', newxta=1, input=case['xta'], dump='diag')])
            if 'crash' in r:
                return None
            v = eval_xta_case(case['xta'], case['fault'], case['info'], r['steps'][0])
            return ({}, v[1]) if v else None
        r = orc.request([dict(entry='xml-buffer', builder='document', newxta=1, input=case['xml'], dump='diag')])
        if 'crash' in r:
            return None
        stp = r['steps'][0]
        ctx = case.get('ctx')
        if ctx is None:
            doc = F.Doc(case['xml'])
            texts = {b['path']: doc.text_of(b) for b in doc.blocks}
            v = eval_case(case['xml'], None, 'none', '', 'none', {}, stp, texts)
            return ({}, v[1]) if v else None
        path, kind, text_mut, fault, info, ov = ctx
        v = eval_case(case['xml'], path, kind, text_mut, fault, info, stp, ov)
        return ({}, v[1]) if v else None
    finally:
        orc.close()


def run(chk):
    chk.build('oracle')
    chk.rule = RULE
    chk.assumptions = ['position conventions: 1-based lines counting \\n (also inside comments and continuations), 0-based columns, end exclusive',
                       'a mutation that produces no error anywhere is not a fault (the property speaks about faults)']
    chk.run_workers(worker)
    return chk.finish(confirm=confirm)


def replay(chk, path):
    chk.build('oracle')
    rec = json.load(open(path))
    case = rec.get('case', rec)
    r = confirm(case)
    if r:
        print('  ' + str(r[1])[:1500])
        print('VIOLATION property=C06 replay=%s' % path)
        return 1
    print('replay: no violation')
    return 0
