"""C14: typing of commutative operators, inline-if and reference arguments is symmetric in its operands."""
import glob
import itertools
import json
import os

from hypothesis import strategies as st

import common
import oracle

LEVEL = 'exploration'

DECL = '''int i, j; const int K = 3; int[0,5] r, r2; int[0,7] w, w2; bool p, q; double d, e; const double KD = 2.5; clock x, y; hybrid clock hx;
typedef scalar[3] S; S s1, s2; typedef scalar[3] S2; S2 t1, t2;
typedef struct { int a; int b; } SA; SA sa, sa2; typedef struct { int a; bool c; } SB; SB sb, sb2; typedef struct { double u; clock v; } SC; SC sc, sc2;
int arr[3]; int arr2[3]; int arr4[4]; int arr42[4]; bool barr[3]; bool barr2[3]; double darr[2]; double darr2[2]; clock xarr[2]; clock xarr2[2];
chan c1, c2; broadcast chan bc1, bc2; urgent chan uc1, uc2; chan carr1[2]; chan carr2[2];
const int ci = 1, ci2 = 2; const int[0,5] cr = 1, cr2 = 2; const bool cb = true, cb2 = false; const double cd = 1.5, cd2 = 2.5; const SA csa = {1,2}, csa2 = {3,4}; const SB csb = {1,true}, csb2 = {2,false};
const int carr[3] = {1,2,3}; const int carrb[3] = {1,2,3}; const int carr4[4] = {1,2,3,4}; const int carr4b[4] = {1,2,3,4};
typedef int[0,5] T5; typedef int[0,3] T3; T5 t5v, t5w; T3 t3v, t3w; int[0,3] b3v, b3w; int[0,3] ba0[2]; int[0,3] ba0b[2]; T5 ba5[2]; T5 ba5b[2]; const int[0,5] cba5[2] = {1,2};
typedef struct { int[0,3] f; } SR3; SR3 sr3, sr3b; typedef struct { T5 f; } SR5; SR5 sr5, sr5b; const T5 ct5 = 2;
void f_T5(T5 &a) {} void f_T3(T3 &a) {} void f_b3(int[0,3] &a) {} void f_ba0(int[0,3] &a[2]) {} void f_ba5(T5 &a[2]) {} void g_T5(const T5 &a) {} void g_b3(const int[0,3] &a) {}
typedef int[0,2] I02; int xt2[int[0,2]]; int xt2b[int[0,2]]; int xi3[I02]; int xi3b[I02]; int[-32768,32767] fr, fr2; int xe[2+1]; int xeb[2+1]; const int N3 = 3; int xn[N3]; int xnb[N3]; int xm[3][int[0,1]]; int xmb[3][2];
void f_xt2(int &a[int[0,2]]) {} void f_xi3(int &a[I02]) {} void f_fr(int[-32768,32767] &a) {} void f_xe(int &a[2+1]) {} void f_xn(int &a[N3]) {} void f_xm(int &a[3][int[0,1]]) {} void f_xmb(int &a[3][2]) {}
int f1(int a) { return a; } double fd(double a) { return a; } bool fb(int a) { return a > 0; }
void f_int(int &a) {} void f_bint(int[0,5] &a) {} void f_w(int[0,7] &a) {} void f_bool(bool &a) {} void f_double(double &a) {} void f_clock(clock &a) {}
void f_S(S &a) {} void f_S2(S2 &a) {} void f_SA(SA &a) {} void f_SB(SB &a) {} void f_SC(SC &a) {} void f_arr(int &a[3]) {} void f_arr4(int &a[4]) {} void f_barr(bool &a[3]) {}
void f_chan(chan &a) {} void f_bchan(broadcast chan &a) {} void f_uchan(urgent chan &a) {} void f_carr(chan &a[2]) {} void f_darr(double &a[2]) {} void f_xarr(clock &a[2]) {}
void g_int(const int &a) {} void g_bint(const int[0,5] &a) {} void g_w(const int[0,7] &a) {} void g_bool(const bool &a) {} void g_double(const double &a) {}
void g_S(const S &a) {} void g_S2(const S2 &a) {} void g_SA(const SA &a) {} void g_SB(const SB &a) {} void g_arr(const int &a[3]) {} void g_arr4(const int &a[4]) {} void g_barr(const bool &a[3]) {}
'''
XML = ('<nta><declaration>%s</declaration><template><name>P</name><location id="id0"><name>L0</name></location><init ref="id0"/>'
       '</template><system>Q = P(); system Q;</system></nta>') % DECL.replace('&', '&amp;').replace('<', '&lt;')

# operand classes: variables, constants, literals and compound expressions of each type
CLASSES = {
    'int': ['i', 'j', '3', 'K', 'i + 1', 'arr[1]', 'sa.a', 'f1(2)', '-i', 'i * j', '(p ? i : j)', 'ci', 'i++'],
    'bounded-int': ['r', 'r2', 'w', 'cr', '(p ? r : r2)'],
    'bool': ['p', 'q', 'true', 'i < j', '!p', 'fb(1)', 'cb', 'p && q', 'sb.c', 'barr[0]', 'forall (k : int[0,2]) arr[k] > 0'],
    'double': ['d', 'e', '1.5', 'KD', 'd * 2.0', 'sqrt(d)', 'fd(d)', '-d', 'sc.u', 'darr[1]', 'cd', 'd + i'],
    'clock': ['x', 'y', 'sc.v', 'xarr[0]', 'hx'],
    'clock-difference': ['x - y', 'y - x', 'x - sc.v'],
    'clock-constraint': ['x < 3', 'x - y <= 2', 'x >= 1 && y < 2', 'x == 2'],
    'scalar-S': ['s1', 's2'],
    'scalar-S2': ['t1', 't2'],
    'struct-A': ['sa', 'sa2', 'csa', '(p ? sa : sa2)'],
    'struct-B': ['sb', 'sb2', 'csb'],
    'struct-C': ['sc', 'sc2'],
    'int-array': ['arr', 'arr2', 'carr'],
    'int-array-4': ['arr4', 'arr42'],
    'bool-array': ['barr', 'barr2'],
    'channel': ['c1', 'c2', 'carr1[0]'],
    'broadcast-channel': ['bc1', 'bc2'],
    'urgent-channel': ['uc1', 'uc2'],
    'channel-array': ['carr1', 'carr2'],
    'string': ['"abc"', '"de"', '""'],
    'typedef-bounded-int': ['t5v', 't5w', 'ct5', 'ba5[0]', 'sr5.f'],
    'bounded-int-0-3': ['b3v', 'b3w', 't3v', 'ba0[1]', 'sr3.f'],
    'bounded-array-0-3': ['ba0', 'ba0b'],
    'typedef-bounded-array-0-5': ['ba5', 'ba5b', 'cba5'],
    'struct-bounded-0-3': ['sr3', 'sr3b'],
    'struct-typedef-bounded-0-5': ['sr5', 'sr5b'],
    # the same array type spelled differently: by size, by index type, by typedef'd index type, by a size expression, by a named constant
    'int-array-by-index-type': ['xt2', 'xt2b'],
    'int-array-by-typedef-index': ['xi3', 'xi3b'],
    'int-array-size-expression': ['xe', 'xeb'],
    'int-array-size-constant': ['xn', 'xnb'],
    'int-2d-array-mixed': ['xm', 'xmb'],
    'full-range-int': ['fr', 'fr2'],
}

# inline-if inside a context that needs an lvalue / a reference argument: ctx(c ? A : B) vs ctx(!c ? B : A)
CONTEXTS = {
    'int': (['i', 'j', 'ci', '3', 'i + 1', 'arr[1]', 'carr[1]', 'sa.a', 'csa.a', 'r', 'cr'],
            ['f_int(%s)', 'g_int(%s)', 'f_bint(%s)', '(%s) = 1', '(%s) += 1', '(%s)++', '++(%s)', 'arr[%s]', 'j = (%s)']),
    'struct-A': (['sa', 'sa2', 'csa', 'csa2'], ['f_SA(%s)', 'g_SA(%s)', '(%s) = sa2', '(%s).a = 1', '(%s).a']),
    'int[3]': (['arr', 'arr2', 'carr', 'carrb'], ['f_arr(%s)', 'g_arr(%s)', '(%s)[0] = 1', '(%s) = arr2', '(%s)[1]']),
    'bool': (['p', 'q', 'cb', 'true', 'i < j'], ['f_bool(%s)', 'g_bool(%s)', '(%s) = true', '!(%s)']),
    'double': (['d', 'e', 'cd', '1.5', 'd + 1.0'], ['f_double(%s)', 'g_double(%s)', '(%s) = 1.0', '(%s) + 1.0']),
    'bounded-arrays': (['ba0', 'ba5', 'cba5', 'ba0b'], ['f_ba0(%s)', 'f_ba5(%s)', '(%s)[0] = 1', '(%s) = ba0b', '(%s)[1]']),
    'bounded-structs': (['sr3', 'sr5', 'sr3b'], ['(%s).f = 1', '(%s) = sr3b', '(%s).f']),
    'bounded-ints': (['b3v', 't5v', 'ct5', 't3v', 'r'], ['f_b3(%s)', 'f_T5(%s)', 'g_b3(%s)', '(%s) = 1', '(%s)++']),
    'same-array-type-spelled-differently': (['arr', 'xt2', 'xi3', 'xe', 'xn', 'carr'], ['f_arr(%s)', 'f_xt2(%s)', 'f_xi3(%s)', 'f_xn(%s)', '(%s)[0] = 1', '(%s) = arr2', '(%s) = xt2b', '(%s)[1]']),
    'full-range-ints': (['i', 'fr', 'ci', 'r'], ['f_int(%s)', 'f_fr(%s)', '(%s) = 1', '(%s)++']),
}
OPS = ['+', '*', '==', '!=', '&&', '||', '&', '|', '^', '<?', '>?']
CONDS = ['p', 'i < j', 'true']
# reference parameters: class -> (ref function, const-ref function or None, mutable variables, const variables)
REFS = {
    'int': ('f_int', 'g_int', ['i', 'j'], ['ci', 'ci2']),
    'int[0,5]': ('f_bint', 'g_bint', ['r', 'r2'], ['cr', 'cr2']),
    'int[0,7]': ('f_w', 'g_w', ['w', 'w2'], []),
    'bool': ('f_bool', 'g_bool', ['p', 'q'], ['cb', 'cb2']),
    'double': ('f_double', 'g_double', ['d', 'e'], ['cd', 'cd2']),
    'clock': ('f_clock', None, ['x', 'y'], []),
    'scalar-S': ('f_S', 'g_S', ['s1', 's2'], []),
    'scalar-S2': ('f_S2', 'g_S2', ['t1', 't2'], []),
    'struct-A': ('f_SA', 'g_SA', ['sa', 'sa2'], ['csa', 'csa2']),
    'struct-B': ('f_SB', 'g_SB', ['sb', 'sb2'], ['csb', 'csb2']),
    'struct-C': ('f_SC', None, ['sc', 'sc2'], []),
    'int[3]': ('f_arr', 'g_arr', ['arr', 'arr2'], ['carr', 'carrb']),
    'int[4]': ('f_arr4', 'g_arr4', ['arr4', 'arr42'], ['carr4', 'carr4b']),
    'bool[3]': ('f_barr', 'g_barr', ['barr', 'barr2'], []),
    'chan': ('f_chan', None, ['c1', 'c2'], []),
    'broadcast chan': ('f_bchan', None, ['bc1', 'bc2'], []),
    'urgent chan': ('f_uchan', None, ['uc1', 'uc2'], []),
    'chan[2]': ('f_carr', None, ['carr1', 'carr2'], []),
    'double[2]': ('f_darr', None, ['darr', 'darr2'], []),
    'clock[2]': ('f_xarr', None, ['xarr', 'xarr2'], []),
    'T5': ('f_T5', 'g_T5', ['t5v', 't5w'], []),
    'T3': ('f_T3', None, ['t3v', 't3w'], []),
    'int[0,3]': ('f_b3', 'g_b3', ['b3v', 'b3w'], []),
    'int[0,3][2]': ('f_ba0', None, ['ba0', 'ba0b'], []),
    'T5[2]': ('f_ba5', None, ['ba5', 'ba5b'], []),
    'int[int[0,2]]': ('f_xt2', None, ['xt2', 'xt2b'], []),
    'int[I02]': ('f_xi3', None, ['xi3', 'xi3b'], []),
    'int[2+1]': ('f_xe', None, ['xe', 'xeb'], []),
    'int[N3]': ('f_xn', None, ['xn', 'xnb'], []),
    'int[3][int[0,1]]': ('f_xm', None, ['xm'], []),
    'int[3][2]': ('f_xmb', None, ['xmb'], []),
    'int[-32768,32767]': ('f_fr', None, ['fr', 'fr2'], []),
}

RULE = ('operand expressions are drawn from %d type classes (%s) - variables, constants, literals and compound expressions of each '
        '- declared in one base model; every operand is first checked alone (ExpressionBuilder + TypeChecker::checkExpression, the '
        'path parseExpression() takes) and only well-typed ones are used. (1) for every ordered class pair x operator of '
        '{+ * == != && || & | ^ <? >?}: check(a op b) and check(b op a) must agree on acceptance and on the kind of the result '
        'type; (2) check(c ? a : b) and check(!c ? b : a) likewise; (3) reference parameters over %d parameter types: a variable '
        'of type A is accepted for f(A&) (reflexive), acceptance of a B variable for f(A&) equals acceptance of an A variable for '
        'f(B&), and the same with const on the parameter; (4) inline-if in contexts that need an lvalue or a reference argument (f(T&), f(const T&), =, +=, ++, indexing, field selection) with branches that differ in constness/lvalueness: ctx(c ? A : B) and ctx(!c ? B : A) agree. All class pairs x operators x first '
        'representatives are enumerated in both tiers; Hypothesis draws further representatives and conditions. Non-trivial: '
        'the two operands are textually different expressions (for references: A != B or a const wrapper is involved); '
        'distinct = distinct (left text, operator, right text).' % (len(CLASSES), ', '.join(CLASSES), len(REFS)))


def step(text):
    return dict(entry='part', part=12, builder='expression', typecheck=1, base=XML, input=text, dump='diag')


def base_kind(typestr):
    """kind of a type with wrappers removed: prefixes (const, ref, meta, ...), typedef labels and integer ranges"""
    import gen_model as M
    try:
        kind, expr, kids = M.parse_type(typestr)
        while True:
            if kind in M.PREFIXES and kids:
                kind, expr, kids = kids[0][1]
            elif kind == 'LABEL' and kids and kids[0][1] is not None:
                kind, expr, kids = kids[0][1]
            elif kind == 'RANGE' and kids:
                kind, expr, kids = kids[0][1]
            else:
                return kind
    except Exception:
        return '?' + typestr[:30]


def outcome(s):
    """(accepted, result kind, messages)"""
    if s.get('exc'):
        return (False, 'exception:' + s['exc']['class'], [s['exc']['what']])
    ok = bool(s.get('check_ok')) and not s.get('errors') and s.get('parse_errors', 0) == 0
    return (ok, base_kind(s.get('expr_type', '?')) if ok else '-', sorted(set(e['msg'] for e in s.get('errors', []))))


class Runner:
    def __init__(self, orc):
        self.orc = orc
        self.cache = {}

    def check_many(self, texts):
        todo = [t for t in dict.fromkeys(texts) if t not in self.cache]
        for k in range(0, len(todo), 40):
            chunk = todo[k:k + 40]
            r = self.orc.request([step(t) for t in chunk])
            if 'crash' in r:
                # isolate
                for t in chunk:
                    r1 = self.orc.request([step(t)])
                    self.cache[t] = (False, 'crash', [oracle.crash_descriptor(r1['crash'])['kind']]) if 'crash' in r1 else outcome(r1['steps'][0])
                continue
            for t, s in zip(chunk, r['steps']):
                self.cache[t] = outcome(s)
        return [self.cache[t] for t in texts]


def pair_verdict(kind, la, ra, ta, tb, oa, ob):
    """oa/ob: outcomes of the two orders. -> None or (descriptor, what)"""
    if oa[0] != ob[0]:
        return ({'family': kind, 'left': la, 'right': ra, 'differs': 'acceptance'},
                '%s is %s but %s is %s (%s)' % (ta, 'accepted' if oa[0] else 'rejected %r' % oa[2], tb, 'accepted' if ob[0] else 'rejected %r' % ob[2], kind))
    if oa[0] and oa[1] != ob[1]:
        return ({'family': kind, 'left': la, 'right': ra, 'differs': 'result-kind'}, '%s has type kind %s but %s has %s' % (ta, oa[1], tb, ob[1]))
    return None


def well_typed_operands(run, stats):
    out = {}
    for c, reps in CLASSES.items():
        res = run.check_many(reps)
        out[c] = [t for t, o in zip(reps, res) if o[0]]
        for t, o in zip(reps, res):
            if not o[0]:
                stats.extra['operand_not_well_typed_alone'] += 1
                stats.notes.setdefault('operands_dropped', []).append('%s: %s %r' % (c, t, o[2]))
    return out


def paren(t):
    return t if t.replace('_', 'a').isalnum() or t.startswith('"') or t.startswith('(') else '(' + t + ')'


def binop_texts(a, op, b):
    return '%s %s %s' % (paren(a), op, paren(b)), '%s %s %s' % (paren(b), op, paren(a))


def iif_texts(c, a, b):
    return '%s ? %s : %s' % (paren(c), paren(a), paren(b)), '!%s ? %s : %s' % (paren(c) if paren(c) != c or c.isalnum() else '(' + c + ')', paren(b), paren(a))


def record(chk, stats, v, case_texts):
    d, what = v
    case = {'kind': 'pair', 'texts': case_texts}
    chk.report(stats, d, what, case)


def enum_worker(chk, wi, nw):
    stats = common.Stats()
    orc = oracle.Oracle(os.path.join(chk.workdir, 'w%d' % wi), cpu_limit=60)
    run = Runner(orc)
    ops = well_typed_operands(run, stats)
    classes = [c for c in CLASSES if ops[c]]
    cells = []
    for ca in classes:
        for cb in classes:
            a = ops[ca][0]
            b = ops[cb][1] if (ca == cb and len(ops[cb]) > 1) else ops[cb][0]
            for op in OPS:
                cells.append(('op:' + op, ca, cb) + binop_texts(a, op, b))
            cells.append(('inline-if', ca, cb) + iif_texts('p', a, b))
    mine = [c for k, c in enumerate(cells) if k % nw == wi]
    res = run.check_many([t for c in mine for t in c[3:5]])
    for k, (fam, ca, cb, ta, tb) in enumerate(mine):
        oa, ob = res[2 * k], res[2 * k + 1]
        stats.case('%s|%s' % (ta, tb), nontrivial=ta != tb, classes=['family:' + fam.split(':')[0], 'accepted' if oa[0] else 'rejected'],
                   sample={'a': ta, 'b': tb, 'outcome_a': oa, 'outcome_b': ob})
        v = pair_verdict(fam, ca, cb, ta, tb, oa, ob)
        if v:
            record(chk, stats, v, [ta, tb])
    # reference parameters (worker 0 .. share by index)
    rcells = []
    skipped_channel_pairs = []
    names = list(REFS)
    for A in names:
        fA, gA, vA, cA = REFS[A]
        # reflexive
        rcells.append(('ref-reflexive', A, A, '%s(%s)' % (fA, vA[0]), None))
        if gA:
            rcells.append(('constref-reflexive', A, A, '%s(%s)' % (gA, vA[0]), None))
            if cA:
                rcells.append(('constref-constarg-reflexive', A, A, '%s(%s)' % (gA, cA[0]), None))
        for B in names:
            if A == B:
                continue
            fB, gB, vB, cB = REFS[B]
            if 'chan' in A and 'chan' in B and A.endswith(']') == B.endswith(']'):
                # channels of different kinds follow the documented capability order (typechecker.cpp channelCapability:
                # "an argument to a channel parameter must have at least the same capability as the parameter"), which is
                # a one-directional rule by design; counted, not checked for symmetry
                skipped_channel_pairs.append((A, B))
                continue
            rcells.append(('ref', A, B, '%s(%s)' % (fA, vB[0]), '%s(%s)' % (fB, vA[0])))
            if gA and gB:
                rcells.append(('constref', A, B, '%s(%s)' % (gA, vB[0]), '%s(%s)' % (gB, vA[0])))
            if cA and cB:
                rcells.append(('ref-constarg', A, B, '%s(%s)' % (fA, cB[0]), '%s(%s)' % (fB, cA[0])))
    if wi == 0:
        stats.extra['channel_pairs_of_different_capability_not_checked'] += len(skipped_channel_pairs)
    mine = [c for k, c in enumerate(rcells) if k % nw == wi]
    res = run.check_many([t for c in mine for t in c[3:5] if t])
    pos = 0
    for fam, A, B, ta, tb in mine:
        oa = res[pos]
        pos += 1
        if tb is None:
            stats.case(ta, nontrivial=fam != 'ref-reflexive', classes=['family:' + fam], sample={'call': ta, 'outcome': oa})
            if not oa[0]:
                record(chk, stats, ({'family': fam, 'left': A, 'right': B, 'differs': 'reflexive-rejected'},
                                    '%s: a variable of type %s is rejected for a reference parameter of its own type: %r' % (ta, A, oa[2])), [ta])
            continue
        ob = res[pos]
        pos += 1
        stats.case('%s|%s' % (ta, tb), nontrivial=True, classes=['family:' + fam, 'accepted' if oa[0] else 'rejected'],
                   sample={'a': ta, 'b': tb, 'outcome_a': oa, 'outcome_b': ob})
        if oa[0] != ob[0]:
            record(chk, stats, ({'family': fam, 'left': A, 'right': B, 'differs': 'acceptance'},
                                '%s is %s but %s is %s' % (ta, 'accepted' if oa[0] else 'rejected', tb, 'accepted' if ob[0] else 'rejected')), [ta, tb])
    # inline-if in lvalue / reference-argument contexts
    ccells = []
    for cls, (opsl, ctxs) in CONTEXTS.items():
        okops = [t for t, o in zip(opsl, run.check_many(opsl)) if o[0]]
        for a, b in itertools.permutations(okops, 2):
            for cond in ('p', 'i < j'):
                t1, t2 = iif_texts(cond, a, b)
                for cx in ctxs:
                    ccells.append((cls, cx, cx % t1, cx % t2))
    mine = [c for k, c in enumerate(ccells) if k % nw == wi]
    res = run.check_many([t for c in mine for t in c[2:4]])
    for k, (cls, cx, ta, tb) in enumerate(mine):
        oa, ob = res[2 * k], res[2 * k + 1]
        stats.case('%s|%s' % (ta, tb), nontrivial=True, classes=['family:inline-if-in-context', 'context:' + cx, 'accepted' if oa[0] else 'rejected'],
                   sample={'a': ta, 'b': tb, 'outcome_a': oa, 'outcome_b': ob})
        v = pair_verdict('inline-if-in-context:' + cx, cls, cls, ta, tb, oa, ob)
        if v:
            record(chk, stats, v, [ta, tb])
    # random representatives
    flat = [(c, t) for c in classes for t in ops[c]]

    def test(args):
        (ca, a), (cb, b), op, cond = args
        if op == '?:':
            ta, tb = iif_texts(cond, a, b)
            fam = 'inline-if'
        else:
            ta, tb = binop_texts(a, op, b)
            fam = 'op:' + op
        oa, ob = run.check_many([ta, tb])
        stats.case('%s|%s' % (ta, tb), nontrivial=ta != tb, classes=['family:' + fam.split(':')[0], 'random', 'accepted' if oa[0] else 'rejected'],
                   sample={'a': ta, 'b': tb, 'outcome_a': oa, 'outcome_b': ob})
        v = pair_verdict(fam, ca, cb, ta, tb, oa, ob)
        if v is None:
            return None
        if chk.is_known(v[0]):
            chk.report(stats, v[0], v[1], {'kind': 'pair', 'texts': [ta, tb]})
            return None
        return (v[0], v[1], {'kind': 'pair', 'texts': [ta, tb]})

    n = 250 if chk.tier == 'quick' else 6000
    strat = st.tuples(st.sampled_from(flat), st.sampled_from(flat), st.sampled_from(OPS + ['?:', '?:']), st.sampled_from(CONDS))
    common.run_hypothesis(chk, stats, strat, test, n, chk.seed * 1000 + wi, shrink=False)
    orc.close()
    return stats


def confirm(case):
    orc = oracle.Oracle(os.path.join(common.WORK, 'C14', 'confirm'), cpu_limit=30)
    try:
        run = Runner(orc)
        res = run.check_many(case['texts'])
        if len(res) == 1:
            return None if res[0][0] else ({}, '%s rejected: %r' % (case['texts'][0], res[0][2]))
        if res[0][0] != res[1][0] or (res[0][0] and res[0][1] != res[1][1]):
            return ({}, '%s -> %r ; %s -> %r' % (case['texts'][0], res[0], case['texts'][1], res[1]))
        return None
    finally:
        orc.close()


def run(chk):
    chk.build('oracle')
    chk.rule = RULE
    chk.assumptions = ['"accepted" = TypeChecker::checkExpression returns true and the document has no error afterwards',
                       'result type compared by its kind after removing wrappers (const/ref/meta prefixes, typedef labels, integer ranges)',
                       'channel reference parameters of a different kind than the argument follow the documented capability order and are not in the symmetric domain',
                       'a const (non-modifiable) argument to a const reference parameter is passed by value (assignment compatibility, by design one-directional: int -> double); only its reflexive case is checked']
    for p in sorted(glob.glob(os.path.join(common.VERIF, 'replays', 'C14', '*.json'))):
        rec = json.load(open(p))
        case = rec.get('case', rec)
        chk.stats.case('replay:' + os.path.basename(p), True, ['replay'])
        r = confirm(case)
        if r:
            chk.report(chk.stats, {'family': 'replay', 'left': os.path.basename(p), 'right': '', 'differs': 'replay'}, r[1], case)
    chk.run_workers(enum_worker)
    chk.explanation = 'the (class pair x operator) and reference-parameter cell spaces are enumerated completely for first representatives; further representatives are sampled'
    return chk.finish(confirm=confirm)


def replay(chk, path):
    chk.build('oracle')
    rec = json.load(open(path))
    case = rec.get('case', rec)
    r = confirm(case)
    if r:
        print('  ' + str(r[1])[:1500])
        print('VIOLATION property=C14 replay=%s' % path)
        return 1
    print('replay: no violation')
    return 0
