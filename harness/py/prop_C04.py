"""C04: the document built from an XML model mirrors the XML's structure exactly."""
import glob
import json
import os
import re

from hypothesis import strategies as st

import common
import gen_model as M
import oracle

LEVEL = 'exploration'
RULE = ('abstract models from harness/py/gen_model.py: 1..3 templates with value/const/reference/bool/bounded parameters, local '
        'declarations (ints, bounded ints, consts, bools, clocks, arrays with and without initialiser lists, typedefs, structs, '
        'doubles, functions), 1..5 named or anonymous locations with invariant / exponential-rate labels and urgent/committed '
        'flags, 0..2 branchpoints, init, 0..6 edges (self loops, parallel edges, branchpoint endpoints, controllable '
        'absent/true/false, select/guard/synchronisation/assignment/probability labels), 0..6 global declarations, full, partial '
        'and chained instantiations, a system line with priorities; rendered to XML with layout noise (DOCTYPE, CDATA vs entity '
        'escaping, attribute order, comments labels, nails, instantiations inside <system>, white space, exponentialrate label before or after the invariant label). Oracle: projection of '
        'the built document == projection computed by the generator, (1) exactly after DocumentBuilder only, (2) after the '
        'Document* overload with the documented invariant rewrite normalised. Non-trivial: >= 2 locations and an edge with '
        '>= 2 labels, or >= 2 templates, or a partial instantiation; distinct = distinct rendered XML texts.')

NOISE = st.fixed_dictionaries({
    'doctype': st.booleans(), 'cdata': st.booleans(), 'attr_swap': st.booleans(), 'comments': st.booleans(), 'nails': st.booleans(),
    'inst_in_system': st.booleans(), 'ws': st.booleans(), 'indent': st.sampled_from(['\t', '  ', '']), 'nl': st.sampled_from(['\n', '\n\n', ' ']),
    'empty_decl': st.booleans(), 'empty_param': st.booleans(), 'rate_first': st.booleans(), 'split': st.one_of(st.just(0), st.just(0), st.integers(1, 10 ** 6)), 'edge_label_order': st.one_of(st.just(0), st.integers(1, 10 ** 6))})


def classes_of(m):
    c = set()
    for t in m.templates:
        if any(l.name is None for l in t.locs):
            c.add('anonymous-location')
        if any(l.inv is not None for l in t.locs):
            c.add('invariant')
        if any(l.rate is not None for l in t.locs):
            c.add('exp-rate')
        if any(l.urgent for l in t.locs):
            c.add('urgent')
        if any(l.committed for l in t.locs):
            c.add('committed')
        if t.bps:
            c.add('branchpoint')
        pairs = set()
        for e in t.edges:
            if e.src == e.dst:
                c.add('self-loop')
            if (e.src, e.dst) in pairs:
                c.add('parallel-edges')
            pairs.add((e.src, e.dst))
            if e.src[0] == 'B' or e.dst[0] == 'B':
                c.add('branchpoint-endpoint')
            for k in ('select', 'guard', 'sync', 'update', 'prob'):
                if getattr(e, k):
                    c.add('label:' + k)
            if e.control is False:
                c.add('uncontrollable')
        if any(p[2] for p in t.params):
            c.add('ref-param')
        if t.params:
            c.add('params')
        if t.decls:
            c.add('local-decls')
    if len(m.system) > 1:
        c.add('priorities')
    if any(i[1] for i in m.insts):
        c.add('partial-instantiation')
    tnames = {t.name for t in m.templates}
    if any(i[2] not in tnames for i in m.insts):
        c.add('chained-instantiation')
    if m.insts:
        c.add('instantiation')
    return sorted(c)


def nontrivial(m):
    if len(m.templates) >= 2 or any(i[1] for i in m.insts):
        return True
    for t in m.templates:
        if len(t.locs) >= 2 and any(sum(1 for k in ('select', 'guard', 'sync', 'update', 'prob') if getattr(e, k)) >= 2 for e in t.edges):
            return True
    return False


def normalise_full(proj):
    """the one documented rewrite of the type checker: invariants become 1 && c1 && c2 ... (rates split out)"""
    for t in proj['templates']:
        for l in t['locations']:
            l['invariant'] = M.conjuncts(l['invariant'])
    return proj


def field_of(path):
    return re.sub(r'\[\d+\]', '', path)


def check_xml(orc, xml, exp_json):
    """-> None or (descriptor, what). exp_json: the generator's expected projection as a JSON string."""
    r = orc.request([dict(entry='xml-buffer', builder='builder-only', newxta=1, input=xml, dump='doc,inv'),
                     dict(entry='xml-buffer', builder='document', newxta=1, input=xml, dump='doc,inv')])
    if 'crash' in r:
        d = oracle.crash_descriptor(r['crash'])
        return ({'pass': 'any', 'field': 'crash:' + d['kind'] + ':' + d['frames']}, r['crash'].get('stderr', '')[:1500])
    for pas, stp in zip(('builder-only', 'document'), r['steps']):
        if stp.get('exc'):
            return ({'pass': pas, 'field': 'exception:' + stp['exc']['class']}, stp['exc']['what'])
        if stp.get('ret') not in (0,):
            return ({'pass': pas, 'field': 'return-value'}, 'parse_XML_buffer returned %r' % stp.get('ret'))
        got = retuple(json.loads(json.dumps(M.project(stp['doc']))))
        e = retuple(json.loads(exp_json))
        if pas == 'document':
            got = normalise_full(got)
            e = normalise_full(e)
        d = M.diff(e, got)
        if d:
            return ({'pass': pas, 'field': field_of(d[0])}, '%s: expected %r, document has %r' % (d[0], d[1], d[2]))
        if stp.get('inv'):
            return ({'pass': pas, 'field': 'C08-invariant'}, stp['inv'][0])
    return None


def check_model(orc, m, noise):
    return check_xml(orc, m.xml(noise), json.dumps(m.expected()))


def worker(chk, wi, nw):
    stats = common.Stats()
    orc = oracle.Oracle(os.path.join(chk.workdir, 'w%d' % wi), cpu_limit=30)

    def test(args):
        m, noise = args
        xml = m.xml(noise)
        stats.case(xml, nontrivial=nontrivial(m), classes=classes_of(m),
                   sample={'xml_prefix': xml[:700], 'templates': len(m.templates), 'instantiations': [m.inst_text(i) for i in m.insts],
                           'system': m.system_text()})
        v = check_model(orc, m, noise)
        if v is None:
            return None
        d, what = v
        case = {'kind': 'xml', 'xml': xml, 'expected': json.dumps(m.expected())}
        if chk.is_known(d):
            chk.report(stats, d, what, case)
            return None
        return (d, what, case)

    n = 380 if chk.tier == 'quick' else 9000
    common.run_hypothesis(chk, stats, st.tuples(M.models(), NOISE), test, n, chk.seed * 1000 + wi)
    orc.close()
    return stats


def retuple(x):
    if isinstance(x, (list, tuple)):
        return tuple(retuple(y) for y in x)
    if isinstance(x, dict):
        return {k: retuple(v) for k, v in x.items()}
    return x


def confirm(case):
    orc = oracle.Oracle(os.path.join(common.WORK, 'C04', 'confirm'), cpu_limit=30)
    try:
        return check_xml(orc, case['xml'], case['expected'])
    finally:
        orc.close()


def run(chk):
    chk.build('oracle')
    chk.rule = RULE
    chk.assumptions = ['the generator is the reference: names are unique across scopes (shadowing is C07), declarations are compared by name, '
                       'type summary (prefixes, base kind, range bounds, array sizes, record fields) and initialiser tree',
                       'query expectations, colours, coordinates and edge action names are not compared (not listed by the statement)']
    # replays
    for p in sorted(glob.glob(os.path.join(common.VERIF, 'replays', 'C04', '*.json'))):
        rec = json.load(open(p))
        r = confirm(rec)
        chk.stats.case('replay:' + p, True, ['replay'])
        if r:
            chk.report(chk.stats, {'pass': 'replay', 'field': os.path.basename(p)}, r[1], rec)
    chk.run_workers(worker)
    return chk.finish(confirm=confirm)


def replay(chk, path):
    chk.build('oracle')
    rec = json.load(open(path))
    case = rec.get('case', rec)
    r = confirm(case)
    if r:
        print('  ' + str(r[1])[:1500])
        print('VIOLATION property=C04 replay=%s' % path)
        return 1
    print('replay: no violation')
    return 0
