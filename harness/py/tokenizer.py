"""A tokenizer mirroring the token list of src/lexer.l (used for token-level fault injection, renaming and
white-space/comment insertion; never for verdicts about the lexer itself)."""
import re

OPERATORS = ['<<=', '>>=', '-u->', '-->', 'A<>', 'A[]', 'E<>', 'E[]', '->', ':=', '+=', '-=', '*=', '/=', '%=', '|=', '&=', '^=', '<?', '>?',
             '**', '<<', '>>', '||', '&&', '<=', '>=', '==', '!=', '++', '--', '/\\', '\\/', '[]', '<>',
             '.', ',', ';', ':', '{', '}', '[', ']', '(', ')', '?', "'", '!', '\\', '=', '+', '-', '*', '/', '%', '|', '&', '^', '<', '>', '#']
_op_re = '|'.join(re.escape(o) for o in sorted(OPERATORS, key=len, reverse=True))
TOKEN_RE = re.compile(r'''
    (?P<ws>[ \t\r\n]+|\\[\t ]*\n)
  | (?P<lcomment>//[^\n]*)
  | (?P<bcomment>/\*.*?\*/|/\*.*\Z)
  | (?P<float>\d+(?:\.\d+)?[eE][+-]?\d+|\d+\.\d+)
  | (?P<int>\d+)
  | (?P<id>[A-Za-z_][A-Za-z_0-9$#]*)
  | (?P<string>"[^"]*")
  | (?P<op>%s)
  | (?P<other>.)
''' % _op_re, re.X | re.S)

KEYWORDS = set('''const select guard sync assign probability process state branchpoint init trans urgent commit broadcast system true false and
or xor not imply for while do if else return typedef struct bool int double string chan clock void scalar forall exists sum deadlock priority
progress gantt meta hybrid before_update after_update assert break continue switch case default import dynamic spawn exit numOf foreach
location IO query control control_t simulate simulation sup inf bounds Pr minE maxE minPr maxPr strategy under imitate loadStrategy
saveStrategy sat X A U W R E'''.split())
BUILTIN_FUNCS = set('''abs fabs fmod fma fmax fmin fdim exp exp2 expm1 ln log log10 log2 log1p pow sqrt cbrt hypot sin cos tan asin acos atan atan2
sinh cosh tanh asinh acosh atanh erf erfc tgamma lgamma ceil floor trunc round fint ldexp ilogb logb nextafter copysign fpclassify isfinite isinf
isnan isnormal signbit isunordered random random_arcsine random_beta random_gamma random_normal random_poisson random_tri random_weibull'''.split())


def tokens(text, keep_space=False):
    """list of (kind, text, start, end); kinds: ws lcomment bcomment float int id string op other"""
    out = []
    for m in TOKEN_RE.finditer(text):
        k = m.lastgroup
        if not keep_space and k in ('ws', 'lcomment', 'bcomment'):
            continue
        out.append((k, m.group(0), m.start(), m.end()))
    return out


def is_user_identifier(tok):
    return tok[0] == 'id' and tok[1] not in KEYWORDS and tok[1] not in BUILTIN_FUNCS
