"""C01: no input crashes, corrupts memory or hangs any parsing entry point."""
import glob
import json
import os
import time

import common
import oracle
import xmlmut

LEVEL = 'exploration'
SEEDS = [('rich_ta.xml', (1, 0)), ('project.xml', (1, 0)), ('old_syntax.xml', (0, 1)), ('lsc.xml', (1, 0)), ('dynamic.xml', (1, 0))]
RULE = ('layer 1: every single edit (drop/empty/duplicate-value/bogus attribute; drop/duplicate/move/empty/rename element; '
        'empty/blank/comment-only/unterminated-comment/stray-token/half text block; truncation after every ">" and every '
        '97th byte) of 4 seed documents x {4.x,3.x syntax} x {Document+TypeChecker+FeatureChecker, PrettyPrinter} x '
        '{xml-buffer} plus xml-file/xml-fd for a stride; layer 2: libFuzzer fork-mode campaigns over byte-level targets '
        '(xml, xta, query on 3 base documents, every xta_part_t) with a dictionary and the committed seed corpus; layer 1b: a rich XTA '
        'text damaged at every (quick: every second) token position followed by a valid probe in the same process, and an earlier parse followed by empty / blank / comment-only text into a fresh document through every text entry point, part and builder; layer 3: '
        'CPU-time scaling probe over 40 input families (sizes n, 2n, 4n, 8n up to 64 KiB; cpu(8n)/cpu(n) <= 8^2.5, cpu <= 20 s, '
        'no crash). Non-trivial: the input reached the grammar (the position '
        'tracker advanced, i.e. at least one block was handed to the parser); distinct = distinct input bytes x configuration.')


def verdict(resp):
    """Return (descriptor, what) if the response violates C01, else None. resp is the whole request answer."""
    if 'crash' in resp:
        c = resp['crash']
        d = oracle.crash_descriptor(c)
        if d['kind'] == 'timeout':
            return ('timeout', d, 'child exceeded its CPU limit')
        return ('crash', d, c.get('stderr', '')[:3000])
    for st in resp.get('steps', []):
        e = st.get('exc')
        if e:
            if not e.get('std', True):
                return ('crash', {'kind': 'non-std-exception:' + e['class'], 'frames': ''}, 'non std::exception escaped: ' + e['class'])
            if 'basic_string' in e.get('what', '') and 'null' in e.get('what', ''):
                # std::string constructed from a null attribute: undefined behaviour that libstdc++ turns into logic_error
                return ('crash', {'kind': 'string-from-null', 'frames': e['class']}, 'std::string constructed from a null pointer: ' + e['what'])
    return None


def enum_cases():
    cases = []
    for fn, switches in SEEDS:
        text = open(os.path.join(common.VERIF, 'corpus', 'seeds', fn)).read()
        k = 0
        for label, mut in xmlmut.mutations(text):
            for nx in switches:
                for builder in ('document', 'pretty'):
                    cases.append((fn, label, mut, nx, builder, 'xml-buffer'))
            if k % 7 == 0:
                cases.append((fn, label, mut, switches[0], 'document', 'xml-file'))
                cases.append((fn, label, mut, switches[0], 'builder-only', 'xml-fd'))
            k += 1
    return cases


def exec_case(orc, case):
    fn, label, mut, nx, builder, entry = case
    return orc.request([dict(entry=entry, builder=builder, newxta=nx, input=mut, dump='inv')])


def seed_query_steps():
    """every seed document once more with its own <formula> texts handed to parseProperty (the XML reader only stores them)"""
    import html
    import re
    out = []
    for fn, switches in SEEDS:
        text = open(os.path.join(common.VERIF, 'corpus', 'seeds', fn)).read()
        qs = [html.unescape(q).replace('\n', ' ') for q in re.findall(r'<formula>([^<]+)</formula>', text)]
        if qs:
            out.append((fn, dict(entry='xml-buffer', builder='document', newxta=switches[0], input=text, dump='inv', actions='queries', queries='\n'.join(qs))))
    return out


def enum_worker(chk, wi, nw):
    st = common.Stats()
    orc = oracle.Oracle(os.path.join(chk.workdir, 'w%d' % wi), cpu_limit=20)
    cases = enum_cases()
    for k, (fn, stp) in enumerate(seed_query_steps()):
        if k % nw != wi:
            continue
        resp = orc.request([stp])
        st.case('%s|own-queries' % fn, nontrivial=True, classes=['enum:own-queries', 'builder:document', 'entry:xml-buffer'], sample={'seed': fn, 'queries': stp['queries'][:200]})
        v = verdict(resp)
        if v:
            chk.report(st, v[1], '%s with its own queries: %s' % (fn, v[2][:1500]), {'kind': 'request', 'steps': [stp]})
    for i, case in enumerate(cases):
        if i % nw != wi:
            continue
        fn, label, mut, nx, builder, entry = case
        resp = exec_case(orc, case)
        reached = 'crash' in resp or any(s.get('reached_grammar') for s in resp.get('steps', []))
        canon = '%s|%s|%d|%s|%s' % (fn, label, nx, builder, entry)
        st.case(canon, nontrivial=reached, classes=['enum:' + label.split(' ')[0].split('@')[0], 'builder:' + builder, 'entry:' + entry, 'newxta:%d' % nx],
                sample={'seed': fn, 'edit': label, 'newxta': nx, 'builder': builder, 'entry': entry})
        v = verdict(resp)
        if v:
            kind, d, what = v
            if kind == 'timeout':
                # a candidate only: confirmed three times alone on CPU time by finish(); otherwise inconclusive
                st.extra['timeout_candidates'] += 1
            chk.report(st, d, '%s / %s newxta=%d builder=%s entry=%s: %s' % (fn, label, nx, builder, entry, what[:1500]),
                       {'kind': 'request', 'steps': [dict(entry=entry, builder=builder, newxta=nx, input=mut, dump='inv')]})
        else:
            for s in resp.get('steps', []):
                if s.get('inv'):
                    st.extra['c08_invariant_failures_seen'] += 1
    orc.close()
    return st


def history_worker(chk, wi, nw):
    """layer 1b: a damaged rich XTA text followed by a valid probe in the SAME process (the grammar keeps file-static state):
    a crash of the probe after the poison is a crash of a parsing entry point"""
    import prop_C15 as H
    st = common.Stats()
    orc = oracle.Oracle(os.path.join(chk.workdir, 'h%d' % wi), cpu_limit=30)
    pool = H.pool()
    ex = H.Exec(orc, pool)
    rp = H.rich_poisons(1 if chk.tier == 'thorough' else 2)
    probes = ['rich-xta', 'xml-valid', 'rich-declarations-part']
    for k, (name, stp) in enumerate(rp):
        if k % nw != wi:
            continue
        ex.pool[name] = ('poison', stp)
        steps = [ex.step(name), ex.step(probes[k % len(probes)])]
        for s_ in steps:
            s_['dump'] = 'inv'
        resp = orc.request(steps)
        st.case('history:%s|%s' % (name, probes[k % len(probes)]), nontrivial=True, classes=['history:' + name.split('@')[0]],
                sample={'history': [name, probes[k % len(probes)]]})
        v = verdict(resp)
        if v:
            chk.report(st, v[1], 'history [%s, %s]: %s' % (name, probes[k % len(probes)], v[2][:1500]), {'kind': 'request', 'steps': steps})
    # an earlier parse in the process, then empty / blank / comment-only text into a FRESH document through every text entry point
    # (the position bookkeeping of the new document starts from process-wide counters left by the earlier parse)
    firsts = [ex.step('xml-valid'), ex.step('xta-valid'), ex.step('query-safety')]
    blanks = ['', ' ', '\n', '// c', '/* c */', '\t\n ']
    seconds = []
    for nx in (1, 0):
        for tx in blanks:
            for b in ('document', 'builder-only', 'pretty'):
                seconds.append(dict(entry='xta-buffer', builder=b, newxta=nx, input=tx))
            seconds.append(dict(entry='xta-file', builder='document', newxta=nx, input=tx))
            seconds.append(dict(entry='prop-buffer', builder='tiga', newxta=nx, input=tx))
            for part in range(21):
                for b in ('builder-only', 'expression'):
                    seconds.append(dict(entry='part', part=part, builder=b, newxta=nx, input=tx))
    k = 0
    for f_ in firsts:
        for s2 in seconds:
            k += 1
            if k % nw != wi:
                continue
            steps = [dict(f_, dump='inv'), dict(s2, dump='inv')]
            resp = orc.request(steps)
            st.case('history-blank:%d' % k, nontrivial=True, classes=['history:blank-into-fresh-document', 'entry:' + s2['entry']],
                    sample={'history': [f_['entry'], '%s part=%s builder=%s newxta=%d input=%r' % (s2['entry'], s2.get('part'), s2['builder'], s2['newxta'], s2['input'])]})
            v = verdict(resp)
            if v:
                chk.report(st, v[1], 'history [%s, %s part=%s builder=%s newxta=%d input=%r]: %s' % (f_['entry'], s2['entry'], s2.get('part'), s2['builder'], s2['newxta'], s2['input'], v[2][:1200]),
                           {'kind': 'request', 'steps': steps})
    orc.close()
    return st


def confirm(case):
    if case.get('kind') == 'fuzz':
        import c01_fuzz
        return c01_fuzz.confirm_fuzz(case)
    if case.get('kind') == 'scaling':
        import c01_scaling
        return c01_scaling.confirm(case)
    orc = oracle.Oracle(os.path.join(common.WORK, 'C01', 'confirm'), cpu_limit=20)
    try:
        resp = orc.request(case['steps'])
    finally:
        orc.close()
    v = verdict(resp)
    if v and v[0] in ('crash', 'timeout'):
        return (v[1], v[2])
    return None


def run_replays(chk):
    st = chk.stats
    orc = oracle.Oracle(os.path.join(chk.workdir, 'replay'), cpu_limit=60)
    for p in sorted(glob.glob(os.path.join(common.VERIF, 'replays', 'C01', '*.json'))):
        rec = json.load(open(p))
        resp = orc.request(rec['steps'])
        st.case('replay:' + os.path.basename(p), nontrivial=True, classes=['replay'])
        v = verdict(resp)
        if v:
            chk.report(st, v[1], 'replay %s: %s' % (os.path.basename(p), v[2][:1500]), {'kind': 'request', 'steps': rec['steps']})
    orc.close()


def run(chk):
    chk.build('oracle')
    chk.rule = RULE
    chk.assumptions = ['deciding configuration: clang 14 -O1 -DNDEBUG with ASan+UBSan (the baseline is RelWithDebInfo, i.e. NDEBUG)',
                       'leaks are not checked (an exception leaving utap_parse skips buffer deletion by construction)',
                       'std::logic_error "basic_string: construction from null" counts as a violation (std::string from a null attribute is UB)']
    layers = os.environ.get('C01_LAYERS', 'replay,enum,history,scaling,fuzz').split(',')
    if 'replay' in layers:
        run_replays(chk)
    if 'enum' in layers:
        chk.run_workers(enum_worker)
    if 'history' in layers:
        chk.run_workers(history_worker)
    if 'scaling' in layers:
        import c01_scaling
        chk.run_workers(c01_scaling.worker)
    if 'fuzz' in layers:
        import c01_fuzz
        c01_fuzz.run(chk)
    chk.explanation = 'layer 1 is exhaustive for its (seed x edit x configuration) space; layers 2 and 3 are sampled'
    return chk.finish(confirm=confirm)


def replay(chk, path):
    chk.build('oracle')
    rec = json.load(open(path))
    case = rec.get('case', rec)
    r = confirm(case)
    if r:
        print('  ' + r[1][:2000])
        print('VIOLATION property=C01 replay=%s' % path)
        return 1
    print('replay: no violation')
    return 0
