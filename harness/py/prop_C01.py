"""C01: no input crashes, corrupts memory or hangs any parsing entry point."""
import glob
import json
import os
import time

import common
import oracle
import xmlmut

LEVEL = 'exploration'
SEEDS = [('rich_ta.xml', (1, 0)), ('project.xml', (1, 0)), ('old_syntax.xml', (0, 1)), ('lsc.xml', (1, 0))]
RULE = ('layer 1: every single edit (drop/empty/duplicate-value/bogus attribute; drop/duplicate/move/empty/rename element; '
        'empty/blank/comment-only/unterminated-comment/stray-token/half text block; truncation after every ">" and every '
        '97th byte) of 4 seed documents x {4.x,3.x syntax} x {Document+TypeChecker+FeatureChecker, PrettyPrinter} x '
        '{xml-buffer} plus xml-file/xml-fd for a stride; layer 2: libFuzzer fork-mode campaigns over byte-level targets '
        '(xml, xta, query on 3 base documents, every xta_part_t) with a dictionary and the committed seed corpus; layer 3 '
        '(thorough): CPU-time scaling probe over input families. Non-trivial: the input reached the grammar (the position '
        'tracker advanced, i.e. at least one block was handed to the parser); distinct = distinct input bytes x configuration.')


def verdict(resp):
    """Return (descriptor, what) if the response violates C01, else None. resp is the whole request answer."""
    if 'crash' in resp:
        c = resp['crash']
        d = oracle.crash_descriptor(c)
        if d['kind'] == 'timeout':
            return ('timeout', d, 'child exceeded its CPU limit')
        return ('crash', d, c.get('stderr', '')[:3000])
    for st in resp.get('steps', []):
        e = st.get('exc')
        if e:
            if not e.get('std', True):
                return ('crash', {'kind': 'non-std-exception:' + e['class'], 'frames': ''}, 'non std::exception escaped: ' + e['class'])
            if 'basic_string' in e.get('what', '') and 'null' in e.get('what', ''):
                # std::string constructed from a null attribute: undefined behaviour that libstdc++ turns into logic_error
                return ('crash', {'kind': 'string-from-null', 'frames': e['class']}, 'std::string constructed from a null pointer: ' + e['what'])
    return None


def enum_cases():
    cases = []
    for fn, switches in SEEDS:
        text = open(os.path.join(common.VERIF, 'corpus', 'seeds', fn)).read()
        k = 0
        for label, mut in xmlmut.mutations(text):
            for nx in switches:
                for builder in ('document', 'pretty'):
                    cases.append((fn, label, mut, nx, builder, 'xml-buffer'))
            if k % 7 == 0:
                cases.append((fn, label, mut, switches[0], 'document', 'xml-file'))
                cases.append((fn, label, mut, switches[0], 'builder-only', 'xml-fd'))
            k += 1
    return cases


def exec_case(orc, case):
    fn, label, mut, nx, builder, entry = case
    return orc.request([dict(entry=entry, builder=builder, newxta=nx, input=mut, dump='inv')])


def enum_worker(chk, wi, nw):
    st = common.Stats()
    orc = oracle.Oracle(os.path.join(chk.workdir, 'w%d' % wi), cpu_limit=20)
    cases = enum_cases()
    for i, case in enumerate(cases):
        if i % nw != wi:
            continue
        fn, label, mut, nx, builder, entry = case
        resp = exec_case(orc, case)
        reached = 'crash' in resp or any(s.get('reached_grammar') for s in resp.get('steps', []))
        canon = '%s|%s|%d|%s|%s' % (fn, label, nx, builder, entry)
        st.case(canon, nontrivial=reached, classes=['enum:' + label.split(' ')[0].split('@')[0], 'builder:' + builder, 'entry:' + entry, 'newxta:%d' % nx],
                sample={'seed': fn, 'edit': label, 'newxta': nx, 'builder': builder, 'entry': entry})
        v = verdict(resp)
        if v:
            kind, d, what = v
            if kind == 'timeout':
                # a candidate only: confirmed three times alone on CPU time by finish(); otherwise inconclusive
                st.extra['timeout_candidates'] += 1
            chk.report(st, d, '%s / %s newxta=%d builder=%s entry=%s: %s' % (fn, label, nx, builder, entry, what[:1500]),
                       {'kind': 'request', 'steps': [dict(entry=entry, builder=builder, newxta=nx, input=mut, dump='inv')]})
        else:
            for s in resp.get('steps', []):
                if s.get('inv'):
                    st.extra['c08_invariant_failures_seen'] += 1
    orc.close()
    return st


def confirm(case):
    if case.get('kind') == 'fuzz':
        import c01_fuzz
        return c01_fuzz.confirm_fuzz(case)
    orc = oracle.Oracle(os.path.join(common.WORK, 'C01', 'confirm'), cpu_limit=20)
    try:
        resp = orc.request(case['steps'])
    finally:
        orc.close()
    v = verdict(resp)
    if v and v[0] in ('crash', 'timeout'):
        return (v[1], v[2])
    return None


def run_replays(chk):
    st = chk.stats
    orc = oracle.Oracle(os.path.join(chk.workdir, 'replay'), cpu_limit=60)
    for p in sorted(glob.glob(os.path.join(common.VERIF, 'replays', 'C01', '*.json'))):
        rec = json.load(open(p))
        resp = orc.request(rec['steps'])
        st.case('replay:' + os.path.basename(p), nontrivial=True, classes=['replay'])
        v = verdict(resp)
        if v:
            chk.report(st, v[1], 'replay %s: %s' % (os.path.basename(p), v[2][:1500]), {'kind': 'request', 'steps': rec['steps']})
    orc.close()


def run(chk):
    chk.build('oracle')
    chk.rule = RULE
    chk.assumptions = ['deciding configuration: clang 14 -O1 -DNDEBUG with ASan+UBSan (the baseline is RelWithDebInfo, i.e. NDEBUG)',
                       'leaks are not checked (an exception leaving utap_parse skips buffer deletion by construction)',
                       'std::logic_error "basic_string: construction from null" counts as a violation (std::string from a null attribute is UB)']
    layers = os.environ.get('C01_LAYERS', 'replay,enum,fuzz,scaling').split(',')
    if 'replay' in layers:
        run_replays(chk)
    if 'enum' in layers:
        chk.run_workers(enum_worker)
    if 'fuzz' in layers:
        import c01_fuzz
        c01_fuzz.run(chk)
    chk.explanation = 'layer 1 is exhaustive for its (seed x edit x configuration) space; layers 2 and 3 are sampled'
    return chk.finish(confirm=confirm)


def replay(chk, path):
    chk.build('oracle')
    rec = json.load(open(path))
    case = rec.get('case', rec)
    r = confirm(case)
    if r:
        print('  ' + r[1][:2000])
        print('VIOLATION property=C01 replay=%s' % path)
        return 1
    print('replay: no violation')
    return 0
